#!/bin/bash
# verify_seed.sh <dir with patch.diff demo_test.go meta.json> : confirms, in a scratch copy of /repo HEAD,
# that the patch applies, builds, passes the existing suite, and that the demo fails with / passes without it.
set -u
export GOFLAGS=-mod=mod GOPROXY=off GOSUMDB=off GOTOOLCHAIN=local
d=$(readlink -f "$1"); name=$(basename "$d")
w=$(mktemp -d /tmp/seedchk.XXXXXX)
trap 'rm -rf "$w"' EXIT
git -C /repo archive HEAD | tar -x -C "$w"
cd "$w"
pkgdir=$(python3 -c "import json,sys,os; m=json.load(open('$d/meta.json')); print(m.get('demo_pkg_dir','.'))")
res="name=$name"
# demo passes on the clean tree
cp "$d/demo_test.go" "$pkgdir/zz_seeded_demo_test.go"
if (cd "$pkgdir" && go test -count=1 -run 'TestSeededDemo' . >/dev/null 2>&1); then res="$res clean_demo=PASS"; else res="$res clean_demo=FAIL(!)"; fi
rm "$pkgdir/zz_seeded_demo_test.go"
if ! git apply --check "$d/patch.diff" 2>/dev/null && ! patch -p1 --dry-run < "$d/patch.diff" >/dev/null 2>&1; then echo "$res apply=FAIL(!)"; exit 1; fi
patch -p1 -s < "$d/patch.diff"
if go build ./... >/dev/null 2>&1; then res="$res build=OK"; else res="$res build=FAIL(!)"; fi
if go test -vet=off -count=1 ./... >/dev/null 2>&1; then res="$res suite=PASS"; else res="$res suite=FAIL(!)"; fi
cp "$d/demo_test.go" "$pkgdir/zz_seeded_demo_test.go"
if (cd "$pkgdir" && go test -count=1 -run 'TestSeededDemo' . >/dev/null 2>&1); then res="$res patched_demo=PASS(!)"; else res="$res patched_demo=FAIL"; fi
echo "$res"
