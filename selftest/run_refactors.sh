#!/bin/bash
# run_refactors.sh <patch.diff> <props...> : applies a behaviour-preserving patch to a scratch copy of /repo's
# working tree and runs the quick checks named; prints PASS (exit 0) / ALARM (exit 1: a false alarm) /
# UNDECIDED (exit 2: construct outside the verifier's subset, or an invariant is needed).
set -u
export GOFLAGS=-mod=mod GOPROXY=off GOSUMDB=off GOTOOLCHAIN=local
cd /verif
patch=$(readlink -f "$1"); shift
name=$(basename "$(dirname "$patch")"); [ "$name" = refactors ] && name=$(basename "$patch" .diff)
w=$(mktemp -d /tmp/refrun.XXXXXX)
rsync -a --exclude .git /repo/ "$w/repo/"
if ! (cd "$w/repo" && patch -p1 -s < "$patch"); then echo "$name: PATCH-DOES-NOT-APPLY"; rm -rf "$w"; exit 0; fi
for p in "$@"; do
  out=$(VERIF_REPO="$w/repo" VERIF_OUT="$w/out" ${VCHECK:-./bin/vcheck} -verif /verif -prop "$p" -tier quick 2>&1); rc=$?
  case $rc in
    0) echo "$name [$p]: PASS $(echo "$out" | grep -E "^$p quick" | sed 's/.*: //' | cut -d, -f1-2)";;
    1) echo "$name [$p]: ALARM $(echo "$out" | grep -m3 '^FAILED-OBLIGATION' | sed 's/.*obligation=//' | tr '\n' ';')";;
    *) echo "$name [$p]: UNDECIDED $(echo "$out" | grep -m2 -E 'ENGINE|UNDECIDED|panic' | cut -c1-260 | tr '\n' ';')";;
  esac
done
rm -rf "$w"
