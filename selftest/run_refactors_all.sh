#!/bin/bash
# run_refactors_all.sh : every behaviour-preserving refactoring written by independent sub-agents
# (refactors_ext/<area>-<slug>/patch.diff) against the checks of its area.  None may print ALARM.
cd /verif
for d in refactors_ext/*/; do
  n=$(basename "$d")
  case $n in
    A-*) props="C01 C02 C05 C12" ;;
    B-*) props="C01 C03 C04 C05 C11 C16" ;;
    C-*) props="C05 C06 C07 C08 C10 C12 C13 C15" ;;
    D-*) props="C01 C05 C09 C11 C12 C14" ;;
    E-*) props="C17 C18 C19" ;;
    F-*) props="C05 C06 C07 C08 C10 C12 C13" ;;
    G-*) props="C01 C04 C05 C09 C11 C12" ;;
    H-*) props="C01 C02 C03 C16 C12" ;;
    I-*) props="C15 C18 C12" ;;
    J-*) props="C17 C19" ;;
    K-*) props="C01 C05 C08 C10 C12 C13" ;;
    L-*) props="C01 C02 C03 C12" ;;
    M-*) props="C05 C06 C07 C09 C12" ;;
    N-*) props="C12 C15 C18 C19" ;;
    *) props="C01" ;;
  esac
  ./selftest/run_refactors.sh "$d/patch.diff" $props
done
