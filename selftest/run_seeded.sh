#!/bin/bash
# run_seeded.sh [dir...] : applies each seeded change to a scratch copy of /repo's working tree and runs the
# quick check of the property it breaks (plus any extra properties named in meta.json "also") with VERIF_REPO
# pointing at the copy.  Prints one line per (change, property): DETECTED / MISSED / BROKEN(exit 2).
set -u
export GOFLAGS=-mod=mod GOPROXY=off GOSUMDB=off GOTOOLCHAIN=local
cd /verif
dirs=("$@"); [ ${#dirs[@]} -eq 0 ] && dirs=(seeded/*/)
if [ ${#dirs[@]} -gt 3 ] && [ -z "${SEEDED_SERIAL:-}" ]; then
  # several changes: three at a time
  printf '%s\n' "${dirs[@]}" | SEEDED_SERIAL=1 xargs -P 3 -n 1 "$0"
  exit 0
fi
for d in "${dirs[@]}"; do
  d=${d%/}; name=$(basename "$d")
  props=$(python3 -c "import json; m=json.load(open('$d/meta.json')); print(' '.join([m['property']]+m.get('also',[])))")
  w=$(mktemp -d /tmp/seedrun.XXXXXX)
  rsync -a --exclude .git /repo/ "$w/repo/"
  if ! (cd "$w/repo" && patch -p1 -s < "/verif/$d/patch.diff"); then echo "$name: PATCH-DOES-NOT-APPLY"; rm -rf "$w"; continue; fi
  for p in $props; do
    out=$(VERIF_REPO="$w/repo" VERIF_OUT="$w/out" ${VCHECK:-./bin/vcheck} -verif /verif -prop "$p" -tier quick 2>&1); rc=$?
    nv=$(echo "$out" | grep -c '^VIOLATION')
    nr=$(echo "$out" | grep '^VIOLATION' | grep -vc 'no-failing-input-found')
    first=$(echo "$out" | grep -m1 '^FAILED-OBLIGATION' | sed 's/.*obligation=//')
    case $rc in
      1) echo "$name [$p]: DETECTED violations=$nv replayed=$nr first=$first";;
      0) echo "$name [$p]: MISSED";;
      *) echo "$name [$p]: BROKEN rc=$rc $(echo "$out" | grep -m2 -E 'ENGINE|UNDECIDED|panic')";;
    esac
  done
  rm -rf "$w"
done
