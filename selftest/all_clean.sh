#!/bin/bash
# all_clean.sh [tier] : every registered check on the unchanged tree; all must exit 0 without a VIOLATION line.
cd /verif; tier=${1:-quick}; bad=0
for p in C01 C02 C03 C04 C05 C06 C07 C08 C09 C10 C11 C12 C13 C14 C15 C16 C17 C18 C19; do
  out=$(${VCHECK:-./bin/vcheck} -verif /verif -prop $p -tier $tier 2>&1); rc=$?
  line=$(echo "$out" | grep -E "^$p (quick|thorough):")
  nv=$(echo "$out" | grep -c '^VIOLATION')
  echo "rc=$rc violations=$nv $line"
  if [ $rc -ne 0 ] || [ $nv -ne 0 ]; then bad=1; echo "$out" | grep -E '^FAILED|^ENGINE|^UNDECIDED' | head -5; fi
done
exit $bad
