#!/bin/bash
# selftest.sh : the must-fail / must-pass corpus of the engine itself.
#   canaries/*.diff  re-introduce the three repaired defects  -> the named check must exit 1
#   refactors/*.diff behaviour-preserving edits               -> the named checks must exit 0
# Each patch is applied to a scratch copy of /repo's working tree (VERIF_REPO), never to /repo.
set -u
export GOFLAGS=-mod=mod GOPROXY=off GOSUMDB=off GOTOOLCHAIN=local
cd /verif
VCHECK=${VCHECK:-./bin/vcheck}
fail=0
run() { # name patch expect props...
  local name=$1 patch=$2 expect=$3; shift 3
  local w; w=$(mktemp -d /tmp/selftest.XXXXXX)
  rsync -a --exclude .git /repo/ "$w/repo/"
  if ! (cd "$w/repo" && patch -p1 -s < "/verif/$patch"); then echo "$name: PATCH-DOES-NOT-APPLY"; fail=1; rm -rf "$w"; return; fi
  for p in "$@"; do
    VERIF_REPO="$w/repo" VERIF_OUT="$w/out" $VCHECK -prop "$p" -tier quick > "$w/log" 2>&1; rc=$?
    if [ "$rc" = "$expect" ]; then echo "$name [$p]: ok (exit $rc)"; else echo "$name [$p]: UNEXPECTED exit $rc (want $expect): $(grep -m2 -E '^FAILED|ENGINE|UNDECIDED' "$w/log" | tr '\n' ' ')"; fail=1; fi
  done
  rm -rf "$w"
}
run D1 selftest/canaries/D1-block-input-port-b.diff 1 C05 C09
run D2 selftest/canaries/D2-im1-keeps-iff2.diff 1 C06
run D6 selftest/canaries/D6-im0-clears-iff-late.diff 1 C06
# own canaries for obligations added after a miss / an assumed premise:
run W1 selftest/canaries/W1-watcher-clears-request.diff 1 C08 C13   # watcher goroutine writes the CPU
run S12 seeded/C12-im0-fixed-copy/patch.diff 1 C12                  # stale im0data contracts; caught by vsLemma_C12_Im0Total
for f in selftest/refactors/*.diff; do
  n=$(basename "$f" .diff)
  case $n in
    R10*) props="C01 C04 C12 C13" ;;
    R11*) props="C08 C13 C18" ;;
    R12*) props="C08 C12 C13 C18" ;;
    R13*) props="C01 C04 C10" ;;
    R14*) props="C18" ;;
    R5*) props="C01 C06 C08 C10 C12" ;;
    R1*|R2*) props="C01 C05 C11 C04" ;;
    R8*) props="C05 C10 C12" ;;
    R9*) props="C01 C02 C12 C13" ;;
    *) props="C01 C02 C03" ;;
  esac
  run "$n" "$f" 0 $props
done
exit $fail
