#!/bin/bash
# collect_seed.sh <prop> : verifies the deliveries under /tmp/mut/<prop>/out and copies the good ones to /verif/seeded
p=$1
for d in /tmp/mut/$p/out/*/; do
  n=$(basename $d)
  res=$(/verif/selftest/verify_seed.sh $d 2>&1)
  echo "$p $res"
  if echo "$res" | grep -q "clean_demo=PASS build=OK suite=PASS patched_demo=FAIL"; then
    mkdir -p /verif/seeded/$p-$n; cp $d/patch.diff $d/demo_test.go $d/meta.json /verif/seeded/$p-$n/
  fi
done
