package main

// Obligations of (*CPU).Step and (*CPU).processInterrupt (C06, C07, C14 on
// halted Steps, C10).  The contract of Step is verified by a case split over
// the control part of the pre-state; the union of the cases is every pre-state:
//
//   noint                 Interrupt == nil
//   NMI                   Interrupt != nil, Type == NMIType
//   refused               Type == IMType, !IFF1
//   IM1                   Type == IMType, IFF1, IM == 1
//   IM2                   Type == IMType, IFF1, IM == 2          (any Data, incl. empty)
//   IM0[E] (1786 cases)   Type == IMType, IFF1, IM == 0, overlay active, Data starts with the opcode bytes of E
//   IM0/empty             Type == IMType, IFF1, IM == 0, len(Data) == 0
//   other                 Type != NMIType, IM ∉ {0,1,2}                                    [safety only]
//
// "Type == IMType" above is really "Type != NMIType": the code treats every
// non-NMI type as maskable and the spec leaves other type values open.
// Not covered functionally: mode 0 with the overlay inactive (PC+len-1 wraps,
// known finding D5) or Data shorter than the opcode bytes.  Totality there is
// compositional: executeOne does not panic for any total Memory (arm safety
// obligations) and im0data.Get/Set are total under the type invariant
// established by newIm0data (their own contracts).

import (
	"fmt"
	"os"
	"path/filepath"
	"sort"
	"strings"
)

func (x *Exec) setCPU(st *State, cpu *PtrV, v Value, names ...string) {
	st.h[cpu.Obj] = x.setPath(st.h[cpu.Obj], x.cpuPath(names...), v)
}
func (x *Exec) getCPU(st *State, cpu *PtrV, names ...string) Value {
	return x.getPath(st.h[cpu.Obj], x.cpuPath(names...))
}

type stepCase struct {
	name       string
	spec       func(x *Exec, st *State, args []Value)
	onlySafety bool
	enc        *Encoding
}

func (x *Exec) intrObj(st *State, cpu *PtrV) *PtrV {
	return x.getCPU(st, cpu, "Interrupt").(*PtrV)
}

// pinInterrupt: a request is pending.  typ == 0: NMI.  typ != 0: any other
// type value (the code treats every non-NMI type as maskable; the spec leaves
// types other than IMType open): hypothesis Type != 0, seeded as a fact.
func (x *Exec) pinInterrupt(st *State, cpu *PtrV, typ int64) {
	b := x.b
	ip := x.intrObj(st, cpu)
	x.setCPU(st, cpu, &PtrV{Obj: ip.Obj, Path: ip.Path}, "Interrupt") // non-nil
	iv := st.h[ip.Obj].(*StructV)
	if typ == 0 {
		nv := &StructV{F: append([]Value{}, iv.F...)}
		nv.F[0] = b.Const(64, 0)
		st.h[ip.Obj] = nv
		return
	}
	isNMI := b.Eq(iv.F[0].(*Term), b.Const(64, 0))
	x.assume(b.Not(isNMI))
	if x.seedFacts == nil {
		x.seedFacts = map[*Term]*Term{}
	}
	x.seedFacts[isNMI] = b.False()
}

func (x *Exec) intrData(st *State, cpu *PtrV) *SliceV {
	ip := x.intrObj(st, cpu)
	return st.h[ip.Obj].(*StructV).F[1].(*SliceV)
}

func stepCases(full bool) []stepCase {
	var cs []stepCase
	cs = append(cs, stepCase{name: "noint", spec: func(x *Exec, st *State, a []Value) {
		x.setCPU(st, a[0].(*PtrV), &PtrV{}, "Interrupt")
	}})
	cs = append(cs, stepCase{name: "NMI", spec: func(x *Exec, st *State, a []Value) {
		x.pinInterrupt(st, a[0].(*PtrV), 0)
	}})
	cs = append(cs, stepCase{name: "refused", spec: func(x *Exec, st *State, a []Value) {
		cpu := a[0].(*PtrV)
		x.pinInterrupt(st, cpu, 1)
		x.setCPU(st, cpu, x.b.False(), "IFF1")
	}})
	for _, im := range []int{1, 2} {
		im := im
		cs = append(cs, stepCase{name: fmt.Sprintf("IM%d", im), spec: func(x *Exec, st *State, a []Value) {
			cpu := a[0].(*PtrV)
			x.pinInterrupt(st, cpu, 1)
			x.setCPU(st, cpu, x.b.True(), "IFF1")
			x.setCPU(st, cpu, x.b.Const(64, uint64(im)), "IM")
		}})
	}
	cs = append(cs, stepCase{name: "IM0/empty", spec: func(x *Exec, st *State, a []Value) {
		cpu := a[0].(*PtrV)
		x.pinInterrupt(st, cpu, 1)
		x.setCPU(st, cpu, x.b.True(), "IFF1")
		x.setCPU(st, cpu, x.b.Const(64, 0), "IM")
		d := x.intrData(st, cpu)
		ip := x.intrObj(st, cpu)
		iv := st.h[ip.Obj].(*StructV)
		nv := &StructV{F: append([]Value{}, iv.F...)}
		nv.F[1] = &SliceV{Obj: d.Obj, Path: d.Path, Off: d.Off, Len: x.b.Const(64, 0), Cap: d.Cap}
		st.h[ip.Obj] = nv
	}})
	cs = append(cs, stepCase{name: "other", onlySafety: true, spec: func(x *Exec, st *State, a []Value) {
		b := x.b
		cpu := a[0].(*PtrV)
		x.pinInterrupt(st, cpu, 1)
		im := x.getCPU(st, cpu, "IM").(*Term)
		for k := uint64(0); k < 3; k++ {
			e := b.Eq(im, b.Const(64, k))
			x.assume(b.Not(e))
			x.seedFacts[e] = b.False()
		}
	}})
	if full {
		for _, e := range allEncodings() {
			e := e
			cs = append(cs, stepCase{name: "IM0[" + e.String() + "]", enc: &e, spec: func(x *Exec, st *State, a []Value) {
				b := x.b
				cpu := a[0].(*PtrV)
				x.pinInterrupt(st, cpu, 1)
				x.setCPU(st, cpu, b.True(), "IFF1")
				x.setCPU(st, cpu, b.Const(64, 0), "IM")
				d := x.intrData(st, cpu)
				arr := st.h[d.Obj].(*Term)
				k := uint64(0)
				for _, p := range e.Pre {
					arr = b.Store(arr, b.Const(64, k), b.Const(8, uint64(p)))
					k++
				}
				if e.CBX {
					k++
				}
				arr = b.Store(arr, b.Const(64, k), b.Const(8, uint64(e.Op)))
				st.h[d.Obj] = arr
				// overlay active and covering the opcode bytes
				pc := x.getCPU(st, cpu, "PC").(*Term)
				n16 := b.Extract(15, 0, d.Len)
				x.assume(b.Cmp("bvuge", d.Len, b.Const(64, k+1)))
				x.assume(b.Cmp("bvule", d.Len, b.Const(64, 0x10000)))
				x.assume(b.Cmp("bvuge", b.Bin("bvadd", pc, b.Bin("bvsub", n16, b.Const(16, 1))), pc))
				// consequences of these hypotheses that let the range tests of the
				// overlay fold for the opcode fetches (each is re-proved as a goal
				// "case-fact" of this very obligation): for j = 0..k
				//   !(PC+j < PC)   and   !(end < PC+j)     with end = PC + uint16(len-1)
				end := b.Bin("bvadd", pc, b.Extract(15, 0, b.Bin("bvsub", d.Len, b.Const(64, 1))))
				for j := uint64(0); j <= k; j++ {
					if t := b.Cmp("bvslt", b.Const(64, j), d.Len); t.Op != "true" {
						x.seedFacts[t] = b.True() // j < len(Data)
					}
					a := b.Bin("bvadd", pc, b.Const(16, j))
					if t := b.Cmp("bvult", a, pc); t.Op != "false" {
						x.seedFacts[t] = b.False()
					}
					if t := b.Cmp("bvult", end, a); t.Op != "false" {
						x.seedFacts[t] = b.False()
					}
				}
			}})
		}
	}
	return cs
}

func (r *Run) checkFn(ld *Loaded, key string, cases []stepCase, comps map[string]bool, frame, safety bool, call string) {
	c := ld.contracts[key]
	if c == nil {
		r.engineErr = append(r.engineErr, "no contract for "+key)
		return
	}
	if r.only != "" {
		var f []stepCase
		for _, sc := range cases {
			if strings.Contains(sc.name, r.only) {
				f = append(f, sc)
			}
		}
		cases = f
	}
	alt := false
	run := func(useContracts bool, cs []stepCase) []*OblResult {
		return r.pipeline(len(cs), func(i int) (*VC, error) {
			sc := cs[i]
			return ld.contractVC(c, vcOpts{name: key + "/" + sc.name, useContracts: useContracts, specialise: sc.spec,
				comps: comps, frame: frame, safety: safety, onlySafety: sc.onlySafety, altDiff: alt,
				replay: &ReplaySpec{Kind: "step", Call: call, Intr: true}, info: map[string]string{"case": sc.name}})
		})
	}
	res := run(true, cases)
	final := map[string]*OblResult{}
	var retry []stepCase
	napp := 0
	for _, o := range res {
		final[o.Name] = o
		napp += o.applied
		if o.Status != "discharged" && o.applied > 0 {
			retry = append(retry, cases[o.vc.caseIdx])
		}
	}
	if len(retry) > 0 && !r.aborted {
		for _, o := range run(false, retry) {
			if o.Status == "discharged" {
				r.Stale = append(r.Stale, o.Name+": discharged only against callee bodies")
			}
			final[o.Name] = o
		}
	}
	// An undecided case (solver limit) may still have a cheap counterexample:
	// the same obligation with the program's opcode at PC pinned to NOP is a
	// restriction of it, so a model of the restriction is a model of the case.
	{
		var hunt []stepCase
		for _, sc := range cases {
			if o := final[key+"/"+sc.name]; o != nil && o.Status == "undecided" && len(hunt) < 16 {
				base := sc
				hunt = append(hunt, stepCase{name: sc.name, onlySafety: sc.onlySafety, enc: sc.enc, spec: func(x *Exec, st *State, a []Value) {
					base.spec(x, st, a)
					x.specialise(st, a[0].(*PtrV), Encoding{Op: 0x00})
				}})
			}
		}
		if len(hunt) > 0 {
			for _, o := range run(true, hunt) {
				if o.Status == "failed" {
					o.Note = "counterexample found with the opcode at PC restricted to NOP"
					final[o.Name] = o
				}
			}
		}
	}
	// known findings: a mode-0 obligation is discharged either against the
	// as-implemented semantics (the finding is present exactly as recorded) or
	// against the statement's semantics (the finding has been repaired)
	kf := loadKnownFindings(r.Verif, r.Prop)
	if len(kf) > 0 {
		var im0bad []stepCase
		nIM0 := 0
		for _, sc := range cases {
			if strings.HasPrefix(sc.name, "IM0[") {
				nIM0++
				if o := final[key+"/"+sc.name]; o != nil && o.Status != "discharged" {
					im0bad = append(im0bad, sc)
				}
			}
		}
		repaired := 0
		if len(im0bad) > 0 && !r.aborted {
			alt = true
			for _, o := range run(false, im0bad) {
				if o.Status == "discharged" {
					o.Note = "discharged against the statement's mode-0 semantics (known finding no longer present here)"
					final[o.Name] = o
					repaired++
				}
			}
			alt = false
		}
		if nIM0 > 0 && repaired < nIM0 {
			for _, k := range kf {
				r.Known = append(r.Known, k)
			}
		} else if nIM0 > 0 {
			r.Notes["known_findings_repaired"] = "all mode-0 obligations hold against the statement's semantics"
		}
	}
	var names []string
	for n := range final {
		names = append(names, n)
	}
	sort.Strings(names)
	var bad []*OblResult
	for _, n := range names {
		o := final[n]
		r.add(o)
		if o.Status != "discharged" {
			bad = append(bad, o)
		}
	}
	r.Notes["contract_applications_"+c.Fn.Name()] = napp
	r.reportFailuresKnown(ld, bad, nil)
}

func (r *Run) reportFailuresKnown(ld *Loaded, bad []*OblResult, compMask func(string) bool) {
	r.reportFailures(ld, bad, compMask)
}

func init() {
	checks["C06"] = func(ld *Loaded, r *Run) {
		r.verifyHelpers(ld, nil)
		only := r.only
		r.only = ""
		r.checkArms(ld, allEncodings(), nil, true, true)
		r.only = only
		full := true
		r.checkFn(ld, "z80.(*CPU).Step", stepCases(full), nil, true, true, "cpu.Step()")
		r.checkLemmas(ld, "C06")
	}
}

// loadKnownFindings reads the committed known-findings file (never written at
// run time) and returns the `known:` entries of a property.
func loadKnownFindings(verif, prop string) []string {
	data, err := os.ReadFile(filepath.Join(verif, "KNOWN_FINDINGS.txt"))
	if err != nil {
		return nil
	}
	var out []string
	for _, ln := range strings.Split(string(data), "\n") {
		ln = strings.TrimSpace(ln)
		if strings.HasPrefix(ln, "known: property="+prop+" ") {
			out = append(out, strings.TrimPrefix(ln, "known: property="+prop+" "))
		}
	}
	return out
}

func init() {
	// C07: T1 = acceptance obligations of Step (components PC, SP, memory,
	// registers), T2 = the boundary PC of HALT and of unfinished block
	// instructions is the instruction itself (arms, component PC), T3/T4 lemmas.
	checks["C07"] = func(ld *Loaded, r *Run) {
		r.verifyHelpers(ld, nil)
		comps := allComps()
		comps["Intr"] = true
		// the refused case (a request raised under DI stays pending while the
		// program's instruction executes) uses the contract of executeOne
		only := r.only
		r.only = ""
		r.checkArms(ld, allEncodings(), nil, true, true)
		r.only = only
		var cs []stepCase
		for _, sc := range stepCases(true) {
			switch {
			case sc.name == "NMI", sc.name == "IM1", sc.name == "IM2", sc.name == "refused":
				cs = append(cs, sc)
			case strings.HasPrefix(sc.name, "IM0["):
				// quick tier: the unprefixed table (RST, CALL, JP, ... the instructions a
				// device realistically supplies); thorough tier: all seven tables
				if r.Tier == "thorough" || sc.enc.Table == "" {
					cs = append(cs, sc)
				}
			}
		}
		if r.Tier != "thorough" {
			r.Notes["quick_tier_subset:Step/IM0"] = "mode-0 acceptance for the 252 unprefixed supplied instructions (all 1786 in the thorough tier and in C06)"
		}
		r.checkFn(ld, "z80.(*CPU).Step", cs, comps, false, false, "cpu.Step()")
		r.checkLemmas(ld, "C07")
		r.Assumptions["C07: the step from the per-boundary obligations (T1-T4) to whole interrupted runs is induction over the program trace (meta-level, not machine-checked)"] = true
	}
}
