package main

// Obligations of (*CPU).Step and (*CPU).processInterrupt (C06, C07, C14 on
// halted Steps, C10).  The contract of Step is verified by a case split over
// the control part of the pre-state; the union of the cases is every pre-state:
//
//   noint                 Interrupt == nil
//   NMI                   Interrupt != nil, Type == NMIType
//   refused               Type == IMType, !IFF1
//   IM1                   Type == IMType, IFF1, IM == 1
//   IM2                   Type == IMType, IFF1, IM == 2          (any Data, incl. empty)
//   IM0[E] (1786 cases)   Type == IMType, IFF1, IM == 0, overlay active, Data starts with the opcode bytes of E
//   IM0/empty             Type == IMType, IFF1, IM == 0, len(Data) == 0
//   IM0/degenerate        Type == IMType, IFF1, IM == 0, len(Data) > 0 but the overlay is inactive
//                         (PC+len-1 wraps) or Data is shorter than the opcode bytes       [safety only]
//   other                 Type ∉ {NMIType, IMType} or IM ∉ {0,1,2}                         [safety only]

import (
	"fmt"
	"sort"
	"strings"
)

func (x *Exec) setCPU(st *State, cpu *PtrV, v Value, names ...string) {
	st.h[cpu.Obj] = x.setPath(st.h[cpu.Obj], x.cpuPath(names...), v)
}
func (x *Exec) getCPU(st *State, cpu *PtrV, names ...string) Value {
	return x.getPath(st.h[cpu.Obj], x.cpuPath(names...))
}

type stepCase struct {
	name       string
	spec       func(x *Exec, st *State, args []Value)
	onlySafety bool
	enc        *Encoding
}

func (x *Exec) intrObj(st *State, cpu *PtrV) *PtrV {
	return x.getCPU(st, cpu, "Interrupt").(*PtrV)
}

func (x *Exec) pinInterrupt(st *State, cpu *PtrV, typ int64) {
	b := x.b
	ip := x.intrObj(st, cpu)
	x.setCPU(st, cpu, &PtrV{Obj: ip.Obj, Path: ip.Path}, "Interrupt") // non-nil
	iv := st.h[ip.Obj].(*StructV)
	nv := &StructV{F: append([]Value{}, iv.F...)}
	if typ >= 0 {
		nv.F[0] = b.Const(64, uint64(typ))
	}
	st.h[ip.Obj] = nv
}

func (x *Exec) intrData(st *State, cpu *PtrV) *SliceV {
	ip := x.intrObj(st, cpu)
	return st.h[ip.Obj].(*StructV).F[1].(*SliceV)
}

func stepCases(full bool) []stepCase {
	var cs []stepCase
	cs = append(cs, stepCase{name: "noint", spec: func(x *Exec, st *State, a []Value) {
		x.setCPU(st, a[0].(*PtrV), &PtrV{}, "Interrupt")
	}})
	cs = append(cs, stepCase{name: "NMI", spec: func(x *Exec, st *State, a []Value) {
		x.pinInterrupt(st, a[0].(*PtrV), 0)
	}})
	cs = append(cs, stepCase{name: "refused", spec: func(x *Exec, st *State, a []Value) {
		cpu := a[0].(*PtrV)
		x.pinInterrupt(st, cpu, 1)
		x.setCPU(st, cpu, x.b.False(), "IFF1")
	}})
	for _, im := range []int{1, 2} {
		im := im
		cs = append(cs, stepCase{name: fmt.Sprintf("IM%d", im), spec: func(x *Exec, st *State, a []Value) {
			cpu := a[0].(*PtrV)
			x.pinInterrupt(st, cpu, 1)
			x.setCPU(st, cpu, x.b.True(), "IFF1")
			x.setCPU(st, cpu, x.b.Const(64, uint64(im)), "IM")
		}})
	}
	cs = append(cs, stepCase{name: "IM0/empty", spec: func(x *Exec, st *State, a []Value) {
		cpu := a[0].(*PtrV)
		x.pinInterrupt(st, cpu, 1)
		x.setCPU(st, cpu, x.b.True(), "IFF1")
		x.setCPU(st, cpu, x.b.Const(64, 0), "IM")
		d := x.intrData(st, cpu)
		ip := x.intrObj(st, cpu)
		iv := st.h[ip.Obj].(*StructV)
		nv := &StructV{F: append([]Value{}, iv.F...)}
		nv.F[1] = &SliceV{Obj: d.Obj, Path: d.Path, Off: d.Off, Len: x.b.Const(64, 0), Cap: d.Cap}
		st.h[ip.Obj] = nv
	}})
	cs = append(cs, stepCase{name: "other", onlySafety: true, spec: func(x *Exec, st *State, a []Value) {
		b := x.b
		cpu := a[0].(*PtrV)
		x.pinInterrupt(st, cpu, -1)
		ip := x.intrObj(st, cpu)
		typ := st.h[ip.Obj].(*StructV).F[0].(*Term)
		im := x.getCPU(st, cpu, "IM").(*Term)
		badT := b.And(b.Not(b.Eq(typ, b.Const(64, 0))), b.Not(b.Eq(typ, b.Const(64, 1))))
		badIM := b.AndN(b.Not(b.Eq(im, b.Const(64, 0))), b.Not(b.Eq(im, b.Const(64, 1))), b.Not(b.Eq(im, b.Const(64, 2))))
		x.assume(b.Or(badT, badIM))
	}})
	if full {
		for _, e := range allEncodings() {
			e := e
			cs = append(cs, stepCase{name: "IM0[" + e.String() + "]", enc: &e, spec: func(x *Exec, st *State, a []Value) {
				b := x.b
				cpu := a[0].(*PtrV)
				x.pinInterrupt(st, cpu, 1)
				x.setCPU(st, cpu, b.True(), "IFF1")
				x.setCPU(st, cpu, b.Const(64, 0), "IM")
				d := x.intrData(st, cpu)
				arr := st.h[d.Obj].(*Term)
				k := uint64(0)
				for _, p := range e.Pre {
					arr = b.Store(arr, b.Const(64, k), b.Const(8, uint64(p)))
					k++
				}
				if e.CBX {
					k++
				}
				arr = b.Store(arr, b.Const(64, k), b.Const(8, uint64(e.Op)))
				st.h[d.Obj] = arr
				// overlay active and covering the opcode bytes
				pc := x.getCPU(st, cpu, "PC").(*Term)
				n16 := b.Extract(15, 0, d.Len)
				x.assume(b.Cmp("bvuge", d.Len, b.Const(64, k+1)))
				x.assume(b.Cmp("bvule", d.Len, b.Const(64, 0x10000)))
				x.assume(b.Cmp("bvuge", b.Bin("bvadd", pc, b.Bin("bvsub", n16, b.Const(16, 1))), pc))
				// consequences of these hypotheses that let the range tests of the
				// overlay fold for the opcode fetches (each is re-proved as a goal
				// "case-fact" of this very obligation): for j = 0..k
				//   !(PC+j < PC)   and   !(end < PC+j)     with end = PC + uint16(len-1)
				end := b.Bin("bvadd", pc, b.Extract(15, 0, b.Bin("bvsub", d.Len, b.Const(64, 1))))
				x.seedFacts = map[*Term]*Term{}
				for j := uint64(0); j <= k; j++ {
					a := b.Bin("bvadd", pc, b.Const(16, j))
					if t := b.Cmp("bvult", a, pc); t.Op != "false" {
						x.seedFacts[t] = b.False()
					}
					if t := b.Cmp("bvult", end, a); t.Op != "false" {
						x.seedFacts[t] = b.False()
					}
				}
			}})
		}
		cs = append(cs, stepCase{name: "IM0/degenerate", onlySafety: true, spec: func(x *Exec, st *State, a []Value) {
			b := x.b
			cpu := a[0].(*PtrV)
			x.pinInterrupt(st, cpu, 1)
			x.setCPU(st, cpu, b.True(), "IFF1")
			x.setCPU(st, cpu, b.Const(64, 0), "IM")
			d := x.intrData(st, cpu)
			x.assume(b.Cmp("bvuge", d.Len, b.Const(64, 1)))
		}})
	}
	return cs
}

func (r *Run) checkFn(ld *Loaded, key string, cases []stepCase, comps map[string]bool, frame, safety bool, call string) {
	c := ld.contracts[key]
	if c == nil {
		r.engineErr = append(r.engineErr, "no contract for "+key)
		return
	}
	if r.only != "" {
		var f []stepCase
		for _, sc := range cases {
			if strings.Contains(sc.name, r.only) {
				f = append(f, sc)
			}
		}
		cases = f
	}
	run := func(useContracts bool, cs []stepCase) []*OblResult {
		return r.pipeline(len(cs), func(i int) (*VC, error) {
			sc := cs[i]
			return ld.contractVC(c, vcOpts{name: key + "/" + sc.name, useContracts: useContracts, specialise: sc.spec,
				comps: comps, frame: frame, safety: safety, onlySafety: sc.onlySafety,
				replay: &ReplaySpec{Kind: "step", Call: call, Intr: true}, info: map[string]string{"case": sc.name}})
		})
	}
	res := run(true, cases)
	final := map[string]*OblResult{}
	var retry []stepCase
	napp := 0
	for _, o := range res {
		final[o.Name] = o
		napp += o.applied
		if o.Status != "discharged" && o.applied > 0 {
			retry = append(retry, cases[o.vc.caseIdx])
		}
	}
	if len(retry) > 0 {
		for _, o := range run(false, retry) {
			if o.Status == "discharged" {
				r.Stale = append(r.Stale, o.Name+": discharged only against callee bodies")
			}
			final[o.Name] = o
		}
	}
	var names []string
	for n := range final {
		names = append(names, n)
	}
	sort.Strings(names)
	var bad []*OblResult
	for _, n := range names {
		o := final[n]
		r.add(o)
		if o.Status != "discharged" {
			bad = append(bad, o)
		}
	}
	r.Notes["contract_applications_"+c.Fn.Name()] = napp
	r.reportFailuresKnown(ld, bad, nil)
}

func (r *Run) reportFailuresKnown(ld *Loaded, bad []*OblResult, compMask func(string) bool) {
	r.reportFailures(ld, bad, compMask)
}

func init() {
	checks["C06"] = func(ld *Loaded, r *Run) {
		r.verifyHelpers(ld, nil)
		only := r.only
		r.only = ""
		r.checkArms(ld, allEncodings(), nil, true, true)
		r.only = only
		full := true
		r.checkFn(ld, "z80.(*CPU).Step", stepCases(full), nil, true, true, "cpu.Step()")
	}
}
