package main

// Merging symbolic executor over go/ssa.  One Exec per obligation (or per
// group of obligations generated from the same symbolic run).

import (
	"fmt"
	"go/constant"
	"go/token"
	"go/types"
	"os"
	"path/filepath"
	"runtime"
	"strings"
	"sync/atomic"

	"golang.org/x/tools/go/ssa"
)

type Ghost struct {
	mem, rd, wr, pin, pout, inval, retn, reti *Object
	extra                                     map[string]*Object
}

type deferRec struct {
	call *ssa.CallCommon
	args []Value
	fn   Value
	pc   *Term
}

type State struct {
	h      Heap
	defers []deferRec
	facts  map[*Term]*Term // term -> constant it equals on every path into this state
}

func extendFacts(f map[*Term]*Term, b *B, c *Term, val bool) map[*Term]*Term {
	if c.Op == "true" || c.Op == "false" {
		return f
	}
	n := make(map[*Term]*Term, len(f)+2)
	for k, v := range f {
		n[k] = v
	}
	var add func(c *Term, val bool)
	add = func(c *Term, val bool) {
		switch {
		case c.Op == "not":
			add(c.Args[0], !val)
			return
		case c.Op == "and" && val:
			add(c.Args[0], true)
			add(c.Args[1], true)
		case c.Op == "or" && !val:
			add(c.Args[0], false)
			add(c.Args[1], false)
		}
		n[c] = b.Bool(val)
		if val && c.Op == "=" && isC(c.Args[1]) && !isC(c.Args[0]) {
			n[c.Args[0]] = c.Args[1]
		}
	}
	add(c, val)
	return n
}

func meetFacts(a, c map[*Term]*Term) map[*Term]*Term {
	if len(a) == 0 || len(c) == 0 {
		return nil
	}
	n := map[*Term]*Term{}
	for k, v := range a {
		if c[k] == v {
			n[k] = v
		}
	}
	return n
}

// underFacts resolves the ite structure of a term with the facts of the current
// path (a value merged at the return of a helper - "wrote one chunk or two" -
// is a constant again once the caller has tested the helper's error result).
func (x *Exec) underFacts(t *Term) *Term {
	if len(x.curFacts) == 0 || isC(t) {
		return t
	}
	if c := x.factOf(t); c != nil {
		return c
	}
	if t.Op == "ite" {
		c := t.Args[0]
		if f := x.factOf(c); f != nil {
			c = f
		}
		switch c.Op {
		case "true":
			return x.underFacts(t.Args[1])
		case "false":
			return x.underFacts(t.Args[2])
		}
		return x.b.Ite(c, x.underFacts(t.Args[1]), x.underFacts(t.Args[2]))
	}
	return t
}

// factOf: the constant a term is known to equal on the current path, or nil.
func (x *Exec) factOf(t *Term) *Term {
	if c, ok := x.curFacts[t]; ok {
		return c
	}
	if t.Op == "not" {
		if c, ok := x.curFacts[t.Args[0]]; ok {
			return x.b.Not(c)
		}
	}
	if t.S.K == 'b' && (t.Op == "and" || t.Op == "or") {
		l, r := x.factOf(t.Args[0]), x.factOf(t.Args[1])
		if l != nil || r != nil {
			if l == nil {
				l = t.Args[0]
			}
			if r == nil {
				r = t.Args[1]
			}
			var n *Term
			if t.Op == "and" {
				n = x.b.And(l, r)
			} else {
				n = x.b.Or(l, r)
			}
			if n.Op == "true" || n.Op == "false" {
				return n
			}
		}
	}
	return nil
}

// sel is Select refined by the facts of the current path: stores whose index
// is known (by a path condition) to differ are skipped, and a cell whose value
// is pinned by a path condition folds to that constant.
func (x *Exec) sel(a, i *Term) *Term {
	b := x.b
	f := x.curFacts
	if len(f) == 0 {
		return b.Select(a, i)
	}
	for {
		t := b.Select(a, i)
		if t.Op != "select" {
			if c, ok := f[t]; ok {
				return c
			}
			return t
		}
		a = t.Args[0]
		if c, ok := f[t]; ok {
			return c
		}
		if a.Op == "store" {
			e := b.Eq(i, a.Args[1])
			if c, ok := f[e]; ok {
				if c.Op == "false" {
					a = a.Args[0]
					continue
				}
				if c.Op == "true" {
					return a.Args[2]
				}
			}
		}
		return t
	}
}

type Exec struct {
	b      *B
	ld     *Loaded
	g      *Ghost
	hyps   []*Term
	obligs []NamedTerm // pc => cond, safety and call-site preconditions
	nobj   int
	depth  int

	useContracts bool
	dropAux      bool                   // loop invariants labelled [aux] are ignored
	ignoreLoops  bool                   // loop contracts are ignored altogether: loops are unrolled
	noInline     map[*ssa.Function]bool // functions that must not be inlined (havocked instead; refutation only)

	// statistics
	inlined      int
	applied      int
	appliedNames map[string]int

	// index terms at which base (unknown) arrays were read; for model extraction
	reads map[string][]*Term

	stack   []*ssa.Function
	safetyN map[string]int

	// spawned closures (go statements)
	spawned []*FuncV

	dbgDone            bool
	inlinedFns         map[string]bool
	realStdlib         map[string]bool // external functions whose real body is executed (model-validation obligations)
	modelsUsed         map[string]bool
	curHeapA, curHeapB Heap              // the two heaps being merged (for values that need their objects' contents)
	pendingObjs        map[*Object]Value // objects created by a merge, added to the merged heap
	strHeap            map[*Object]*Term // immutable string contents created by merges (strings never change)
	curHeapForStr      Heap
	opaqueIds          map[string]uint64
	events             []callEvent
	unmodelledWritten  map[string]bool
	retCond            *Term // disjunction of the path conditions of the returns of the last completed run
	asserts            map[string][2]Value
	assertTypes        map[string]types.Type
	assertHeap         Heap
	curArgs            [][]Value
	curEntry           []Heap
	iters              []*IterV
	opaqueNil          map[*OpaqueV]*Term
	degraded           map[*GhostRecvV]Value
	poisoned           map[*ssa.Package]string // packages whose initialiser could not be executed
	initGuard          bool
	ctxDone            map[string]*Term // opaque context -> "its Done channel is known to be closed"
	mapLens            []mapLen
	bounded            []string // loops cut at a fixed depth: the obligations of this run can refute, not prove
	curFacts           map[*Term]*Term
	seedFacts          map[*Term]*Term // facts implied by the hypotheses of the case (each is also an obligation of the split's own lemma)
	notApplicable      []string
	gobj               *Object
	globals            map[*ssa.Global]*Object
	initDone           map[*ssa.Package]bool
	inInit             bool
	inSpec             int
	seq                int
	logCalls           int
	stubsUsed          map[string]bool
	freeBind           []map[ssa.Value]Value

	// hook for interface calls on opaque values not covered by the built-in rules
	invokeHook func(x *Exec, recv *IfaceV, method string, args []Value, st *State, pc *Term) (Value, bool)
	// hook for static calls (stubs)
	callHook func(x *Exec, callee *ssa.Function, args []Value, st *State, pc *Term) (Value, bool)
}

func NewExec(ld *Loaded) *Exec {
	x := &Exec{b: NewB(), ld: ld, reads: map[string][]*Term{}, appliedNames: map[string]int{}, safetyN: map[string]int{}, unmodelledWritten: map[string]bool{}, strHeap: map[*Object]*Term{}, pendingObjs: map[*Object]Value{}}
	return x
}

func (x *Exec) newObj(name string, t types.Type) *Object {
	x.nobj++
	return &Object{id: x.nobj, name: name, T: t}
}

func (x *Exec) assume(t *Term) {
	if t.S.K != 'b' {
		panic("assume of a non-boolean term: " + dumpTerm(t, 3))
	}
	if t.Op == "true" {
		return
	}
	x.hyps = append(x.hyps, t)
}

func (x *Exec) oblige(kind string, pc, cond *Term) {
	t := x.b.Implies(pc, cond)
	if t.Op == "true" {
		return
	}
	fn := "?"
	if len(x.stack) > 0 {
		fn = fnKey(x.stack[len(x.stack)-1])
	}
	k := fn + "/safety/" + kind
	x.safetyN[k]++
	x.obligs = append(x.obligs, NamedTerm{fmt.Sprintf("%s#%d", k, x.safetyN[k]-1), t})
}

func fnKey(fn *ssa.Function) string {
	if fn.Pkg == nil {
		return fn.String()
	}
	return pkgKey(fn.Pkg.Pkg.Name(), fn.Pkg.Pkg.Path()) + "." + fn.RelString(fn.Pkg.Pkg)
}

// pkgKey: package name, or the last path element for commands (package main).
func pkgKey(name, path string) string {
	if name == "main" {
		if k := strings.LastIndex(path, "/"); k >= 0 {
			return path[k+1:]
		}
	}
	return name
}

// asUnsupported: the panic value as an Unsupported.  Besides the engine's own
// Unsupported, a failed Go type assertion on one of the engine's value kinds
// (a value shape used in a way the executor has no rule for, e.g. a
// ghost-governed receiver that is indexed directly) means the same thing:
// outside the subset, not an engine crash.
func asUnsupported(r interface{}) (Unsupported, bool) {
	if u, ok := r.(Unsupported); ok {
		return u, true
	}
	if e, ok := r.(runtime.Error); ok {
		msg := e.Error()
		if strings.Contains(msg, "interface conversion") && strings.Contains(msg, "main.") {
			return Unsupported{Msg: "value of a shape the executor has no rule for here (" + msg + ")"}, true
		}
	}
	return Unsupported{}, false
}

// searchLoop: a `for k, v := range m { … }` whose body has no effect but may
// leave the loop (return / break) - "is there a key such that …".  Without any
// annotation it has an exact summary, because with no effects the order of the
// iteration cannot matter: either some present key k satisfies the exit
// condition E(k) and the loop is left from the body with that k (any such k may
// be the first one the runtime picks), or the iterator is exhausted and then no
// present key satisfies E.  The executor runs the body once for a fresh key
// (back edge dropped) and, for the exhausted case, assumes
// forall j. present(j) => !E(j), E being the disjunction of the path conditions
// of the edges that leave the loop from the body, with k := j.
type searchLoop struct {
	header *ssa.BasicBlock
	body   map[*ssa.BasicBlock]bool
	exits  *Term // disjunction of the leaving edges' path conditions
	k, ok  *Term
	cand   func(key *Term) *Term
	pc     *Term
	ks     *Sort
}

// pureSearchLoops: every loop of fn is a range-over-map loop whose body is
// free of effects; nil otherwise.
func pureSearchLoops(fn *ssa.Function, fi *fnInfo) map[*ssa.BasicBlock]*searchLoop {
	out := map[*ssa.BasicBlock]*searchLoop{}
	for _, h := range fi.headers {
		// natural loop of h
		body := map[*ssa.BasicBlock]bool{h: true}
		var stack []*ssa.BasicBlock
		for k, p := range h.Preds {
			if fi.back[h][k] && !body[p] {
				body[p] = true
				stack = append(stack, p)
			}
		}
		for len(stack) > 0 {
			n := stack[len(stack)-1]
			stack = stack[:len(stack)-1]
			for _, p := range n.Preds {
				if !body[p] {
					body[p] = true
					stack = append(stack, p)
				}
			}
		}
		// the header: next, extracts, the test - nothing loop-carried
		hasNext := false
		for _, ins := range h.Instrs {
			switch i := ins.(type) {
			case *ssa.Next:
				if i.IsString {
					return nil
				}
				if _, ok := i.Iter.(*ssa.Range); !ok {
					return nil
				}
				if _, isMap := i.Iter.(*ssa.Range).X.Type().Underlying().(*types.Map); !isMap {
					return nil
				}
				hasNext = true
			case *ssa.Extract, *ssa.If, *ssa.DebugRef:
			default:
				return nil
			}
		}
		if !hasNext {
			return nil
		}
		for blk := range body {
			if blk == h {
				continue
			}
			if fi.back[blk] != nil {
				return nil // nested loop
			}
			for _, ins := range blk.Instrs {
				switch i := ins.(type) {
				case *ssa.Extract, *ssa.If, *ssa.Jump, *ssa.DebugRef, *ssa.Lookup, *ssa.BinOp, *ssa.Convert, *ssa.ChangeType,
					*ssa.Field, *ssa.FieldAddr, *ssa.Index, *ssa.IndexAddr, *ssa.Phi, *ssa.MakeInterface, *ssa.ChangeInterface:
				case *ssa.UnOp:
					if i.Op == token.ARROW {
						return nil
					}
				case *ssa.TypeAssert:
					if !i.CommaOk {
						return nil
					}
				case *ssa.Call:
					bi, ok := i.Call.Value.(*ssa.Builtin)
					if !ok || bi.Name() != "len" && bi.Name() != "cap" {
						return nil
					}
				default:
					return nil
				}
			}
		}
		out[h] = &searchLoop{header: h, body: body}
	}
	if len(out) == 0 {
		return nil
	}
	return out
}

// searchNext: the iterator step of a summarised search loop: ok => k is a
// present key (any); !ok => the iterator is exhausted (closed by closeSearchLoop).
func (x *Exec) searchNext(sl *searchLoop, iter Value, st *State, pc *Term) Value {
	b := x.b
	it, ok := iter.(*IterV)
	if !ok {
		unsupported("next on %T", iter)
	}
	m := it.Map
	ks, vs := mapObjSorts(m.T)
	var present, vals *Term
	if m.Obj == nil {
		present = b.ConstArr(Arr(ks, BoolS()), b.False())
	} else {
		mv := st.h[m.Obj].(*StructV)
		present = mv.F[0].(*Term)
		if mv.F[1] != nil {
			vals = mv.F[1].(*Term)
		}
	}
	nilm := x.mapNil(m)
	k := b.Fresh("searchkey", ks)
	okv := b.Fresh("searchok", BoolS())
	for _, o := range st.h {
		if mv, ok := o.(*StructV); ok && len(mv.F) == 2 {
			if pt, ok := mv.F[0].(*Term); ok && pt.S.String() == present.S.String() {
				x.noteSelect(pt, k)
			}
		}
	}
	cand := func(key *Term) *Term { return b.And(b.Not(nilm), b.Select(present, key)) }
	x.assume(b.Implies(pc, b.Implies(okv, cand(k))))
	sl.k, sl.ok, sl.cand, sl.pc, sl.ks, sl.exits = k, okv, cand, pc, ks, b.False()
	var val Value
	if vs != nil && vals != nil {
		val = b.Select(vals, k)
	} else {
		val = x.zeroV(m.T.Elem())
	}
	return &TupleV{E: []Value{okv, k, val}}
}

// closeSearchLoop: exhausted iterator => no present key leaves the loop.
func (x *Exec) closeSearchLoop(sl *searchLoop) {
	if sl.k == nil {
		return // the loop was not reached
	}
	b := x.b
	j := b.BoundVar("sj", sl.ks)
	e := b.Subst(sl.exits, map[*Term]*Term{sl.k: j, sl.ok: b.True()}, map[*Term]*Term{})
	x.assume(b.Implies(b.And(sl.pc, b.Not(sl.ok)), b.Forall([]*Term{j}, b.Implies(sl.cand(j), b.Not(e)))))
	// ... and a key that is produced is one that leaves the loop (the paths on
	// which the chosen key does not were dropped: their outcomes are the ones of
	// the other choices)
	x.assume(b.Implies(b.And(sl.pc, sl.ok), sl.exits))
}

// needUnwind is raised by the exact unrolling when a test does not fold.
type needUnwind struct{}

const (
	unwindProofLimit  = 66 // symbolic rounds tried before a loop is declared not provably bounded
	unwindRefuteLimit = 4  // depth of the bounded (refutation-only) unrolling
)

type edge struct {
	cond *Term
	st   *State
	vals map[ssa.Value]Value // unwinding mode: the SSA values of the path that created the edge
}

type fnInfo struct {
	order   []*ssa.BasicBlock
	predIdx map[*ssa.BasicBlock]map[*ssa.BasicBlock][]int
	back    map[*ssa.BasicBlock]map[int]bool // block -> pred index -> is back edge
	headers []*ssa.BasicBlock
}

func analyze(fn *ssa.Function) *fnInfo {
	fi := &fnInfo{back: map[*ssa.BasicBlock]map[int]bool{}}
	seen := map[*ssa.BasicBlock]int{} // 1 on stack, 2 done
	var order []*ssa.BasicBlock
	type be struct{ from, to *ssa.BasicBlock }
	var backs []be
	var dfs func(b *ssa.BasicBlock)
	dfs = func(b *ssa.BasicBlock) {
		seen[b] = 1
		for _, s := range b.Succs {
			switch seen[s] {
			case 0:
				dfs(s)
			case 1:
				backs = append(backs, be{b, s})
			}
		}
		seen[b] = 2
		order = append(order, b)
	}
	dfs(fn.Blocks[0])
	for i, j := 0, len(order)-1; i < j; i, j = i+1, j-1 {
		order[i], order[j] = order[j], order[i]
	}
	fi.order = order
	hs := map[*ssa.BasicBlock]bool{}
	for _, e := range backs {
		if fi.back[e.to] == nil {
			fi.back[e.to] = map[int]bool{}
		}
		for k, p := range e.to.Preds {
			if p == e.from {
				fi.back[e.to][k] = true
			}
		}
		hs[e.to] = true
	}
	for _, b := range fn.Blocks {
		if hs[b] {
			fi.headers = append(fi.headers, b)
		}
	}
	return fi
}

func (x *Exec) info(fn *ssa.Function) *fnInfo {
	x.ld.fiMu.Lock()
	defer x.ld.fiMu.Unlock()
	if fi, ok := x.ld.fi[fn]; ok {
		return fi
	}
	fi := analyze(fn)
	x.ld.fi[fn] = fi
	return fi
}

func (x *Exec) mergeStates(edges []edge) (*Term, *State) {
	b := x.b
	var pc *Term
	var st *State
	for _, e := range edges {
		if e.cond == nil || e.cond.Op == "false" {
			continue
		}
		if st == nil {
			st, pc = e.st, e.cond
			continue
		}
		nh := make(Heap, len(st.h))
		x.curHeapForStr = st.h
		x.curHeapA, x.curHeapB = e.st.h, st.h
		for o, v := range e.st.h {
			if ov, ok := st.h[o]; ok {
				nh[o] = x.iteV(e.cond, v, ov)
			} else {
				nh[o] = v
			}
		}
		for o, v := range x.pendingObjs {
			nh[o] = v
			delete(x.pendingObjs, o)
		}
		for o, v := range st.h {
			if _, ok := nh[o]; !ok {
				nh[o] = v
			}
		}
		if len(e.st.defers) != len(st.defers) {
			unsupported("join of paths with different deferred calls")
		}
		st = &State{h: nh, defers: st.defers, facts: meetFacts(st.facts, e.st.facts)}
		pc = b.Or(pc, e.cond)
	}
	return pc, st
}

// mergeEdgesVals is mergeStates for the unwinding mode: the SSA values of the
// joined paths are merged like the heap cells.  A value that cannot be merged
// (different closures, pointers to different objects ...) becomes undefined;
// that only matters if the code after the join uses it.
func (x *Exec) mergeEdgesVals(edges []edge, cur map[ssa.Value]Value) (*Term, *State, map[ssa.Value]Value) {
	b := x.b
	var pc *Term
	var st *State
	var vals map[ssa.Value]Value
	for _, e := range edges {
		if e.cond == nil || e.cond.Op == "false" {
			continue
		}
		ev := e.vals
		if ev == nil {
			ev = cur
		}
		if st == nil {
			st, pc = e.st, e.cond
			vals = make(map[ssa.Value]Value, len(ev))
			for k, v := range ev {
				vals[k] = v
			}
			continue
		}
		nh := make(Heap, len(st.h))
		x.curHeapForStr = st.h
		x.curHeapA, x.curHeapB = e.st.h, st.h
		for o, v := range e.st.h {
			if ov, ok := st.h[o]; ok {
				nh[o] = x.iteV(e.cond, v, ov)
			} else {
				nh[o] = v
			}
		}
		for k, v := range ev {
			ov, ok := vals[k]
			if !ok {
				vals[k] = v
				continue
			}
			if ov == nil || v == nil || sameValue(ov, v) {
				continue
			}
			func() {
				defer func() {
					if r := recover(); r != nil {
						if _, is := asUnsupported(r); is {
							delete(vals, k)
							return
						}
						panic(r)
					}
				}()
				vals[k] = x.iteV(e.cond, v, ov)
			}()
		}
		for o, v := range x.pendingObjs {
			nh[o] = v
			delete(x.pendingObjs, o)
		}
		for o, v := range st.h {
			if _, ok := nh[o]; !ok {
				nh[o] = v
			}
		}
		if len(e.st.defers) != len(st.defers) {
			unsupported("join of paths with different deferred calls")
		}
		st = &State{h: nh, defers: st.defers, facts: meetFacts(st.facts, e.st.facts)}
		pc = b.Or(pc, e.cond)
	}
	return pc, st, vals
}

// sameValue: identical values need no merge (terms are hash-consed).
func sameValue(a, b Value) bool {
	if a == b {
		return true
	}
	switch u := a.(type) {
	case *PtrV:
		v, ok := b.(*PtrV)
		if !ok || u.AltC != nil || v.AltC != nil || u.Obj != v.Obj || u.Nil != v.Nil || len(u.Path) != len(v.Path) {
			return false
		}
		for i := range u.Path {
			if u.Path[i] != v.Path[i] {
				return false
			}
		}
		return true
	case *FuncV:
		v, ok := b.(*FuncV)
		return ok && u.Fn == v.Fn && len(u.Bindings) == 0 && len(v.Bindings) == 0
	case *IterV:
		return false
	}
	return false
}

var unwindSeq int64

// infeasible asks the solver whether a path condition is unsatisfiable under
// the current hypotheses (the unwinding assertion of a loop without invariant).
func (x *Exec) infeasible(cond *Term) bool {
	q := &Query{Hyps: x.hyps, Goals: []NamedTerm{{"path", cond}}}
	n := atomic.AddInt64(&unwindSeq, 1)
	file := filepath.Join(workRoot, fmt.Sprintf("unwind_%d_%d.smt2", os.Getpid(), n))
	st := Cover(x.b, q, file, 10)
	os.Remove(file)
	return st == "unsat"
}

type frame struct {
	fn   *ssa.Function
	vals map[ssa.Value]Value
}

func (x *Exec) constV(c *ssa.Const) Value {
	b := x.b
	t := c.Type()
	if c.Value == nil {
		return x.zeroV(t)
	}
	if bt, ok := t.Underlying().(*types.Basic); ok {
		switch {
		case bt.Info()&types.IsBoolean != 0:
			return b.Bool(constant.BoolVal(c.Value))
		case bt.Info()&types.IsString != 0:
			s := constant.StringVal(c.Value)
			return &StrV{Known: true, S: s, Len: b.Const(64, uint64(len(s)))}
		case bt.Info()&types.IsInteger != 0:
			w, _ := intWidth(t)
			if v, ok := constant.Int64Val(constant.ToInt(c.Value)); ok {
				return b.Const(w, uint64(v))
			}
			v, _ := constant.Uint64Val(constant.ToInt(c.Value))
			return b.Const(w, v)
		}
	}
	unsupported("constant of type %v", t)
	return nil
}

func (x *Exec) toIdx64(v *Term, t types.Type) *Term {
	_, sg := intWidth(t)
	if sg {
		return x.b.SExt(64, v)
	}
	return x.b.ZExt(64, v)
}

// load reads through a pointer.
func (x *Exec) load(p *PtrV, st *State, pc *Term, what string) Value {
	if p.AltC != nil {
		va := x.load(p.AltA, st, x.b.And(pc, p.AltC), what)
		vb := x.load(p.AltB, st, x.b.And(pc, x.b.Not(p.AltC)), what)
		x.curHeapForStr = st.h
		x.curHeapA, x.curHeapB = st.h, st.h
		r := x.iteV(p.AltC, va, vb)
		for o, v := range x.pendingObjs {
			st.h[o] = v
			delete(x.pendingObjs, o)
		}
		return r
	}
	x.oblige("nil-deref", pc, x.b.Not(x.ptrNil(p)))
	if p.Obj == nil {
		// definitely nil: the obligation above is already `pc => false`;
		// continue with an arbitrary value of unknown shape is impossible
		unsupported("load through nil pointer (%s)", what)
	}
	if p.Obj.Share {
		// shared with a running goroutine: any value
		v := x.getPath(st.h[p.Obj], p.Path)
		if iv, ok := v.(*IfaceV); ok && iv.T != nil && iv.T.String() == "error" {
			// rely (established for the watcher by Run/cancel/value): once the flag
			// is set the cell holds the non-nil ctx.Err()
			return &IfaceV{Nil: x.b.False(), Opaque: "ctx.Err()", T: iv.T}
		}
		if t, ok := v.(*Term); ok {
			return x.b.Fresh("shared_"+p.Obj.name, t.S)
		}
		return x.freshLike(v, "shared_"+p.Obj.name)
	}
	ov, ok := st.h[p.Obj]
	if !ok {
		unsupported("load from unknown object %s", p.Obj.name)
	}
	x.noteRead(ov, p.Path)
	return x.getPath(ov, p.Path)
}

func (x *Exec) freshLike(v Value, name string) Value {
	switch u := v.(type) {
	case *Term:
		return x.b.Fresh(name, u.S)
	case *StructV:
		r := &StructV{}
		for i, f := range u.F {
			r.F = append(r.F, x.freshLike(f, fmt.Sprintf("%s_%d", name, i)))
		}
		return r
	case *IfaceV:
		return &IfaceV{Nil: x.b.Fresh(name+"_isnil", BoolS()), Opaque: x.b.Fresh(name, BoolS()).Name, T: u.T}
	}
	return v
}

func (x *Exec) noteRead(ov Value, path []PE) {
	// remember indices at which a base array variable is read
	v := ov
	for _, e := range path {
		if e.Index != nil {
			if a, ok := v.(*Term); ok {
				x.noteSelect(a, x.adaptIdx(a, e.Index))
			}
			return
		}
		v = v.(*StructV).F[e.Field]
	}
}

func (x *Exec) noteSelect(a, idx *Term) {
	if idx.hasBV {
		return // inside a quantifier body: not a cell of the counterexample
	}
	r := a
	for r.Op == "store" {
		r = r.Args[0]
	}
	if r.Op == "var" {
		l := x.reads[r.Name]
		for _, o := range l {
			if o == idx {
				return
			}
		}
		if len(l) < 64 {
			x.reads[r.Name] = append(l, idx)
		}
	}
}

func (x *Exec) store(p *PtrV, v Value, st *State, pc *Term) {
	if p.AltC != nil {
		// the location that is not selected keeps its value
		for _, alt := range []struct {
			p *PtrV
			c *Term
		}{{p.AltA, p.AltC}, {p.AltB, x.b.Not(p.AltC)}} {
			g := x.b.And(pc, alt.c)
			if g.Op == "false" {
				continue
			}
			if alt.p.AltC != nil || alt.p.Obj == nil {
				x.store(alt.p, v, st, g)
				continue
			}
			x.curHeapForStr = st.h
			x.curHeapA, x.curHeapB = st.h, st.h
			old := x.getPath(st.h[alt.p.Obj], alt.p.Path)
			x.store(alt.p, x.iteV(alt.c, v, old), st, g)
			for o, ov := range x.pendingObjs {
				st.h[o] = ov
				delete(x.pendingObjs, o)
			}
		}
		return
	}
	x.oblige("nil-deref", pc, x.b.Not(x.ptrNil(p)))
	if p.Obj == nil {
		unsupported("store through nil pointer")
	}
	st.h[p.Obj] = x.setPath(st.h[p.Obj], p.Path, v)
}

func (x *Exec) run(fn *ssa.Function, args []Value, st *State, pcIn *Term) (Value, *State) {
	if fn.Blocks == nil {
		unsupported("function without body: %s", fn.String())
	}
	if x.depth > 40 {
		unsupported("call depth exceeded (recursion?) at %s", fn.String())
	}
	for _, f := range x.stack {
		if f == fn {
			unsupported("recursion through %s", fn.String())
		}
	}
	x.depth++
	x.stack = append(x.stack, fn)
	x.curArgs = append(x.curArgs, args)
	x.curEntry = append(x.curEntry, st.h.clone())
	defer func() {
		x.depth--
		x.stack = x.stack[:len(x.stack)-1]
		x.curArgs = x.curArgs[:len(x.curArgs)-1]
		x.curEntry = x.curEntry[:len(x.curEntry)-1]
	}()
	b := x.b
	fi := x.info(fn)
	initVals := func() map[ssa.Value]Value {
		m := map[ssa.Value]Value{}
		for i, p := range fn.Params {
			m[p] = args[i]
		}
		return m
	}
	in := map[*ssa.BasicBlock][]edge{}
	for _, blk := range fn.Blocks {
		in[blk] = make([]edge, len(blk.Preds))
	}
	// duplicate predecessor handling: If with both successors equal
	unwinding := false // a loop without invariant whose tests do not fold: unrolled symbolically (see unwind below)
	var summary map[*ssa.BasicBlock]*searchLoop // header -> pure search loop over a map (summarised, see searchLoop)
	var vals map[ssa.Value]Value
	setEdge := func(from, to *ssa.BasicBlock, succIdx int, e edge) {
		if summary != nil && e.cond != nil {
			for h, sl := range summary {
				if to == h && sl.body[from] {
					// back edge: this key does not end the search; the outcomes of the
					// other keys are covered by the other choices of the key
					e.cond = b.False()
				} else if sl.body[from] && from != h && !sl.body[to] {
					sl.exits = b.Or(sl.exits, e.cond)
				}
			}
		}
		if unwinding && e.cond != nil && e.cond.Op != "false" {
			e.vals = make(map[ssa.Value]Value, len(vals))
			for k, v := range vals {
				e.vals[k] = v
			}
		}
		// find the matching pred slot: the n-th occurrence of `from` in to.Preds
		// corresponds to the n-th occurrence of `to` in from.Succs
		n := 0
		for k := 0; k < succIdx; k++ {
			if from.Succs[k] == to {
				n++
			}
		}
		for k, p := range to.Preds {
			if p == from {
				if n == 0 {
					in[to][k] = e
					return
				}
				n--
			}
		}
		panic("pred slot")
	}
	vals = initVals()
	var rets []edge
	var retVals []Value
	var loops *loopCtx
	concrete := false // a loop without invariant: followed concretely (every branch condition must fold)
	if len(fi.headers) > 0 {
		c := x.ld.contractFor(fn)
		covered := c != nil && len(c.Loops) > 0 && !x.ignoreLoops
		if covered {
			for k := range fi.headers {
				covered = covered && c.Loops[k] != nil
			}
		}
		if !covered {
			// no invariants (or not for every loop the function has now): a pure
			// search loop over a map is summarised, anything else unrolled
			if ps := pureSearchLoops(fn, fi); ps != nil {
				summary = ps
			} else {
				concrete = true
			}
		} else {
			loops = x.newLoopCtx(fn, fi)
		}
	}
	entered := false
	var get func(v ssa.Value) Value
	get = func(v ssa.Value) Value {
		switch c := v.(type) {
		case *ssa.Const:
			return x.constV(c)
		case *ssa.Function:
			return &FuncV{Fn: c}
		case *ssa.Global:
			return x.globalPtr(c, st)
		case *ssa.Builtin:
			return &OpaqueV{Name: "builtin:" + c.Name()}
		}
		r, ok := vals[v]
		if !ok {
			if _, isFV := v.(*ssa.FreeVar); isFV && len(x.freeBind) > 0 {
				if r, ok := x.freeBind[len(x.freeBind)-1][v]; ok {
					return r
				}
			}
			unsupported("undefined SSA value %s in %s", v.Name(), fn.Name())
		}
		if len(x.curFacts) != 0 {
			if t, ok := r.(*Term); ok {
				if c := x.factOf(t); c != nil {
					return c
				}
			}
		}
		return r
	}
	processBlock := func(blk *ssa.BasicBlock) {
		var pc *Term
		var cur *State
		if blk == fn.Blocks[0] && !entered {
			entered = true
			pc, cur = pcIn, st
		} else {
			edges := in[blk]
			if loops != nil && fi.back[blk] != nil {
				// loop header: merge forward edges only
				var fwd []edge
				for k, e := range edges {
					if !fi.back[blk][k] {
						fwd = append(fwd, e)
					}
				}
				pc, cur = x.mergeStates(fwd)
			} else if unwinding {
				pc, cur, vals = x.mergeEdgesVals(edges, vals)
			} else {
				pc, cur = x.mergeStates(edges)
			}
			if cur == nil {
				return
			}
		}
		cur = &State{h: cur.h.clone(), defers: cur.defers, facts: cur.facts}
		st = cur // for globalPtr lazily materialising globals
		x.curFacts = cur.facts
		if loops != nil && fi.back[blk] != nil {
			pc = loops.enterHeader(blk, pc, cur, in[blk], vals, get)
		}
		for _, ins := range blk.Instrs {
			switch i := ins.(type) {
			case *ssa.DebugRef:
			case *ssa.Phi:
				if loops != nil && fi.back[blk] != nil {
					// set by enterHeader
					continue
				}
				var r Value
				for k := range i.Edges {
					e := in[blk][k]
					if e.cond == nil || e.cond.Op == "false" {
						continue
					}
					var v Value
					if unwinding && e.vals != nil {
						// the value as it was on the path that took this edge
						saved := vals
						vals = e.vals
						v = get(i.Edges[k])
						vals = saved
						x.curHeapForStr = cur.h
						x.curHeapA, x.curHeapB = e.st.h, cur.h
					} else {
						v = get(i.Edges[k])
					}
					if r == nil {
						r = v
					} else {
						r = x.iteV(e.cond, v, r)
					}
				}
				if unwinding {
					for o, v := range x.pendingObjs {
						cur.h[o] = v
						delete(x.pendingObjs, o)
					}
				}
				vals[i] = r
			case *ssa.Alloc:
				et := i.Type().Underlying().(*types.Pointer).Elem()
				o := x.newObj(fn.Name()+"."+i.Comment, et)
				cur.h[o] = x.zeroV(et)
				vals[i] = &PtrV{Obj: o}
			case *ssa.FieldAddr:
				var fa func(p *PtrV, pc *Term) *PtrV
				fa = func(p *PtrV, pc *Term) *PtrV {
					if p.AltC != nil {
						return &PtrV{AltC: p.AltC, AltA: fa(p.AltA, b.And(pc, p.AltC)), AltB: fa(p.AltB, b.And(pc, b.Not(p.AltC)))}
					}
					if p.Obj == nil {
						x.oblige("nil-deref", pc, b.False())
						unsupported("field address of nil pointer")
					}
					return &PtrV{Obj: p.Obj, Path: append(append([]PE{}, p.Path...), PE{Field: i.Field}), Nil: p.Nil}
				}
				vals[i] = fa(get(i.X).(*PtrV), pc)
			case *ssa.IndexAddr:
				vals[i] = x.indexAddr(i, get, cur, pc)
			case *ssa.Field:
				vals[i] = get(i.X).(*StructV).F[i.Field]
			case *ssa.Index:
				switch a := get(i.X).(type) {
				case *Term:
					at := i.X.Type().Underlying().(*types.Array)
					idx := x.toIdx64(get(i.Index).(*Term), i.Index.Type())
					x.oblige("index", pc, b.Cmp("bvult", idx, b.Const(64, uint64(at.Len()))))
					ai := x.adaptIdx(a, idx)
					x.noteSelect(a, ai)
					vals[i] = x.sel(a, ai)
				case *ArrV:
					idx := x.toIdx64(get(i.Index).(*Term), i.Index.Type())
					x.oblige("index", pc, b.Cmp("bvult", idx, b.Const(64, uint64(len(a.E)))))
					vals[i] = x.selArrV(a, idx)
				case *StrV:
					idx := x.toIdx64(get(i.Index).(*Term), i.Index.Type())
					x.oblige("index", pc, b.Cmp("bvult", idx, a.Len))
					vals[i] = x.strByte(a, idx, cur)
				default:
					unsupported("Index on %T", a)
				}
			case *ssa.UnOp:
				vals[i] = x.unop(i, get, cur, pc)
			case *ssa.Store:
				x.store(get(i.Addr).(*PtrV), get(i.Val), cur, pc)
			case *ssa.BinOp:
				vals[i] = x.binop(i, get(i.X), get(i.Y), cur)
			case *ssa.Slice:
				vals[i] = x.sliceOp(i, get, cur, pc)
			case *ssa.Convert:
				vals[i] = x.convert(get(i.X), i.X.Type(), i.Type(), cur)
			case *ssa.ChangeType:
				vals[i] = get(i.X)
			case *ssa.ChangeInterface:
				vals[i] = get(i.X)
			case *ssa.MakeInterface:
				vals[i] = &IfaceV{Dyn: get(i.X), DynT: i.X.Type(), T: i.Type()}
			case *ssa.TypeAssert:
				vals[i] = x.typeAssert(i, get(i.X).(*IfaceV), cur, pc)
			case *ssa.Extract:
				vals[i] = get(i.Tuple).(*TupleV).E[i.Index]
			case *ssa.MakeSlice:
				ln := x.toIdx64(get(i.Len).(*Term), i.Len.Type())
				cp := x.toIdx64(get(i.Cap).(*Term), i.Cap.Type())
				x.oblige("make-size", pc, b.And(b.Cmp("bvsle", b.Const(64, 0), ln), b.Cmp("bvsle", ln, cp)))
				et := i.Type().Underlying().(*types.Slice).Elem()
				es := sortOf(et)
				if es == nil {
					unsupported("make([]%v)", et)
				}
				o := x.newObj(fn.Name()+".makeslice", nil)
				cur.h[o] = b.ConstArr(Arr(BV(64), es), x.zeroV(et).(*Term))
				vals[i] = &SliceV{Obj: o, Off: b.Const(64, 0), Len: ln, Cap: cp}
			case *ssa.MakeMap:
				mt := i.Type().Underlying().(*types.Map)
				ks, vs := mapObjSorts(mt)
				if ks == nil {
					unsupported("make(map[%v])", mt.Key())
				}
				o := x.newObj(fn.Name()+".makemap", nil)
				mv := &StructV{F: []Value{b.ConstArr(Arr(ks, BoolS()), b.False()), nil}}
				if vs != nil {
					mv.F[1] = b.ConstArr(Arr(ks, vs), x.zeroV(mt.Elem()).(*Term))
				}
				cur.h[o] = mv
				vals[i] = &MapV{Obj: o, Nil: b.False(), T: mt, Fresh: b.True()}
			case *ssa.Lookup:
				vals[i] = x.lookup(i, get, cur, pc)
			case *ssa.MapUpdate:
				m := get(i.Map).(*MapV)
				x.oblige("nil-map-write", pc, b.Not(x.mapNil(m)))
				if m.Obj == nil {
					unsupported("write to nil map")
				}
				mv := cur.h[m.Obj].(*StructV)
				k := get(i.Key).(*Term)
				nv := &StructV{F: []Value{b.Store(mv.F[0].(*Term), k, b.True()), mv.F[1]}}
				if mv.F[1] != nil {
					nv.F[1] = b.Store(mv.F[1].(*Term), k, get(i.Value).(*Term))
				}
				cur.h[m.Obj] = nv
			case *ssa.MakeClosure:
				fv := &FuncV{Fn: i.Fn.(*ssa.Function)}
				for _, bd := range i.Bindings {
					fv.Bindings = append(fv.Bindings, get(bd))
				}
				vals[i] = fv
			case *ssa.Go:
				if i.Call.IsInvoke() {
					unsupported("go statement on a method value")
				}
				fv, ok := get(i.Call.Value).(*FuncV)
				if !ok {
					unsupported("go statement on a non-closure")
				}
				// cells captured by the goroutine, or handed to it by pointer, become shared
				for _, bd := range fv.Bindings {
					if p, ok := bd.(*PtrV); ok && p.Obj != nil {
						p.Obj.Share = true
					}
				}
				for _, a := range i.Call.Args {
					if p, ok := get(a).(*PtrV); ok && p.Obj != nil {
						p.Obj.Share = true
					}
				}
				x.spawned = append(x.spawned, fv)
			case *ssa.Defer:
				d := deferRec{call: &i.Call, pc: pc}
				for _, a := range i.Call.Args {
					d.args = append(d.args, get(a))
				}
				d.fn = get(i.Call.Value)
				cur.defers = append(append([]deferRec{}, cur.defers...), d)
			case *ssa.RunDefers:
				for k := len(cur.defers) - 1; k >= 0; k-- {
					d := cur.defers[k]
					x.doCall(d.call, d.fn, d.args, cur, pc, fn)
				}
				cur.defers = nil
			case *ssa.Call:
				var args []Value
				for _, a := range i.Call.Args {
					args = append(args, get(a))
				}
				vals[i] = x.doCall(&i.Call, get(i.Call.Value), args, cur, pc, fn)
				x.curFacts = cur.facts
			case *ssa.Panic:
				x.oblige("panic", pc, b.False())
				// path ends here
			case *ssa.If:
				c := get(i.Cond).(*Term)
				if debugIf && fn.Name() == "executeOne" && c.Op != "true" && c.Op != "false" && !x.dbgDone {
					x.dbgDone = true
					fmt.Printf("DEBUG symbolic branch in executeOne: %s\n", dumpTerm(c, 6))
				}
				if loops != nil {
					if loops.edge(blk, 0, b.And(pc, c), cur) {
						setEdge(blk, blk.Succs[0], 0, edge{cond: b.False(), st: cur})
					} else {
						setEdge(blk, blk.Succs[0], 0, edge{cond: b.And(pc, c), st: cur})
					}
					if loops.edge(blk, 1, b.And(pc, b.Not(c)), cur) {
						setEdge(blk, blk.Succs[1], 1, edge{cond: b.False(), st: cur})
					} else {
						setEdge(blk, blk.Succs[1], 1, edge{cond: b.And(pc, b.Not(c)), st: cur})
					}
					break
				}
				curT := &State{h: cur.h, defers: cur.defers, facts: extendFacts(cur.facts, b, c, true)}
				curF := &State{h: cur.h, defers: cur.defers, facts: extendFacts(cur.facts, b, c, false)}
				setEdge(blk, blk.Succs[0], 0, edge{cond: b.And(pc, c), st: curT})
				setEdge(blk, blk.Succs[1], 1, edge{cond: b.And(pc, b.Not(c)), st: curF})
			case *ssa.Jump:
				if loops != nil && loops.edge(blk, 0, pc, cur) {
					setEdge(blk, blk.Succs[0], 0, edge{cond: b.False(), st: cur})
					break
				}
				setEdge(blk, blk.Succs[0], 0, edge{cond: pc, st: cur})
			case *ssa.Return:
				var rv Value
				switch len(i.Results) {
				case 0:
				case 1:
					rv = get(i.Results[0])
				default:
					t := &TupleV{}
					for _, r := range i.Results {
						t.E = append(t.E, get(r))
					}
					rv = t
				}
				rets = append(rets, edge{cond: pc, st: cur})
				retVals = append(retVals, rv)
			case *ssa.Range:
				vals[i] = x.rangeStart(i, get(i.X))
			case *ssa.Next:
				if sl := summary[blk]; sl != nil {
					vals[i] = x.searchNext(sl, get(i.Iter), cur, pc)
					break
				}
				if loops == nil && !unwinding {
					panic(needUnwind{})
				}
				if i.IsString && loops != nil {
					unsupported("range over a string in %s, a function with loop invariants (no invariant rule for string iterators: remove the loop contract to have it unrolled)", fnKey(fn))
				}
				vals[i] = x.rangeNext(get(i.Iter), cur, pc)
			case *ssa.Select:
				// only the poll of a context: select { case <-ctx.Done(): …; default: }
				if i.Blocking || len(i.States) != 1 || i.States[0].Dir != types.RecvOnly {
					unsupported("select statement other than a non-blocking receive (%s)", i.String())
				}
				ch, ok := get(i.States[0].Chan).(*OpaqueV)
				if !ok || !strings.HasPrefix(ch.Name, "done:") {
					unsupported("non-blocking receive from a channel that is not a context's Done()")
				}
				id := strings.TrimPrefix(ch.Name, "done:")
				fired := b.Fresh("ctx_done", BoolS())
				if prev := x.ctxDone[id]; prev != nil {
					x.assume(b.Implies(b.And(pc, prev), fired))
				}
				if x.ctxDone == nil {
					x.ctxDone = map[string]*Term{}
				}
				x.ctxDone[id] = fired
				// (index, recvOk[, received value]): index 0 if the receive happened, -1 for default
				tv := &TupleV{E: []Value{b.Ite(fired, b.Const(64, 0), b.Const(64, ^uint64(0))), b.False()}}
				if tt, ok := i.Type().(*types.Tuple); ok {
					for k := 2; k < tt.Len(); k++ {
						tv.E = append(tv.E, x.zeroV(tt.At(k).Type()))
					}
				}
				vals[i] = tv
			default:
				unsupported("instruction %T (%s) in %s", ins, ins.String(), fn.Name())
			}
		}
	}
	if !concrete {
		for _, blk := range fi.order {
			processBlock(blk)
		}
		for _, sl := range summary {
			x.closeSearchLoop(sl)
		}
	} else {
		// Exact unrolling: follow the one successor whose edge condition folded
		// to true.  When a test does not fold, the attempt is abandoned and the
		// function is unrolled symbolically instead (unwind).
		nh, no, ni := len(x.hyps), len(x.obligs), len(x.iters)
		st0 := st // (processBlock moves st along)
		reads0 := map[string][]*Term{}
		for k, v := range x.reads {
			reads0[k] = append([]*Term{}, v...)
		}
		exact := func() (ok bool) {
			defer func() {
				if r := recover(); r != nil {
					if _, is := r.(needUnwind); is {
						ok = false
						return
					}
					panic(r)
				}
			}()
			blk := fn.Blocks[0]
			for steps := 0; blk != nil; steps++ {
				if steps > 200000 {
					unsupported("loop in %s does not terminate within the unrolling limit", fnKey(fn))
				}
				nret := len(rets)
				processBlock(blk)
				for k := range in[blk] {
					in[blk][k] = edge{} // consumed
				}
				if len(rets) > nret {
					break
				}
				var next *ssa.BasicBlock
				for _, s := range blk.Succs {
					for k, p := range s.Preds {
						if p != blk {
							continue
						}
						e := in[s][k]
						if e.cond == nil {
							continue
						}
						switch {
						case e.cond == pcIn || e.cond.Op == "true":
							next = s
						case e.cond.Op == "false":
							in[s][k] = edge{}
						default:
							panic(needUnwind{})
						}
					}
				}
				blk = next
			}
			return true
		}
		if !exact() {
			reset := func() {
				x.hyps, x.obligs, x.iters = x.hyps[:nh], x.obligs[:no], x.iters[:ni]
				for _, blk := range fn.Blocks {
					in[blk] = make([]edge, len(blk.Preds))
				}
				rets, retVals, entered = nil, nil, false
				vals = initVals()
				st = st0
				x.reads = map[string][]*Term{}
				for k, v := range reads0 {
					x.reads[k] = append([]*Term{}, v...)
				}
			}
			// Symbolic unrolling ("unwinding"): every round executes each block
			// at most once in topological order, merging paths; a back edge
			// feeds the header of the next round.  Each edge carries the SSA
			// values of its path.  The unrolling is complete - and the result
			// as good as any other verification condition - when the solver
			// shows that no back edge can be taken any more (unwinding
			// assertion).  Otherwise the function is cut at a small depth and
			// the run is marked bounded: only refutations that replay on the
			// real code are believed.
			unwinding = true
			unwind := func(limit int, checkAt map[int]bool, bounded bool) bool {
				symRounds := 0
				for round := 0; ; round++ {
					if round > 100000 {
						unsupported("loop in %s does not terminate within the unrolling limit", fnKey(fn))
					}
					for _, blk := range fi.order {
						processBlock(blk)
						for k := range in[blk] {
							in[blk][k] = edge{}
						}
					}
					// what is left are the back edges taken in this round
					live, symbolic := false, false
					for _, h := range fi.headers {
						for k, e := range in[h] {
							if e.cond == nil || e.cond.Op == "false" {
								in[h][k] = edge{}
								continue
							}
							live = true
							if e.cond != pcIn && e.cond.Op != "true" {
								symbolic = true
							}
						}
					}
					if !live {
						return true
					}
					if !symbolic {
						continue
					}
					symRounds++
					if checkAt[symRounds] || symRounds >= limit {
						still := false
						for _, h := range fi.headers {
							for k, e := range in[h] {
								if e.cond == nil {
									continue
								}
								if x.infeasible(e.cond) {
									in[h][k] = edge{}
								} else {
									still = true
								}
							}
						}
						if !still {
							return true
						}
					}
					if symRounds >= limit {
						if !bounded {
							return false
						}
						for _, h := range fi.headers {
							for k := range in[h] {
								in[h][k] = edge{}
							}
						}
						x.bounded = append(x.bounded, fmt.Sprintf("loop in %s without an invariant: unrolled %d times, deeper iterations not explored", fnKey(fn), limit))
						return true
					}
				}
			}
			reset()
			if !unwind(unwindProofLimit, map[int]bool{2: true, 4: true, 9: true, 17: true, 33: true}, false) {
				reset()
				unwind(unwindRefuteLimit, nil, true)
			}
		}
	}
	if len(rets) == 0 {
		// no path returns (every path panics or loops forever)
		return nil, &State{h: st.h}
	}
	// merge returns
	var rst *State
	var rv Value
	x.retCond = b.False()
	for _, e := range rets {
		x.retCond = b.Or(x.retCond, e.cond)
	}
	for k, e := range rets {
		if e.cond.Op == "false" {
			continue
		}
		if rst == nil {
			rst, rv = e.st, retVals[k]
			continue
		}
		nh := make(Heap, len(rst.h))
		x.curHeapForStr = rst.h
		x.curHeapA, x.curHeapB = e.st.h, rst.h
		for o, v := range e.st.h {
			if ov, ok := rst.h[o]; ok {
				nh[o] = x.iteV(e.cond, v, ov)
			} else {
				nh[o] = v
			}
		}
		for o, v := range x.pendingObjs {
			nh[o] = v
			delete(x.pendingObjs, o)
		}
		for o, v := range rst.h {
			if _, ok := nh[o]; !ok {
				nh[o] = v
			}
		}
		rst = &State{h: nh, facts: meetFacts(rst.facts, e.st.facts)}
		if rv != nil {
			rv = x.iteV(e.cond, retVals[k], rv)
			for o, v := range x.pendingObjs {
				rst.h[o] = v
				delete(x.pendingObjs, o)
			}
		}
	}
	if rst == nil {
		return nil, &State{h: st.h}
	}
	return rv, rst
}

func (x *Exec) globalPtr(g *ssa.Global, st *State) Value {
	o := x.ld.globalObj(x, g, st)
	return &PtrV{Obj: o}
}

func (x *Exec) indexAddr(i *ssa.IndexAddr, get func(ssa.Value) Value, st *State, pc *Term) Value {
	b := x.b
	idx := x.toIdx64(get(i.Index).(*Term), i.Index.Type())
	switch p := get(i.X).(type) {
	case *SliceV:
		x.oblige("index", pc, b.Cmp("bvult", idx, p.Len))
		if p.Obj == nil {
			unsupported("index into nil slice")
		}
		return &PtrV{Obj: p.Obj, Path: append(append([]PE{}, p.Path...), PE{Index: b.Bin("bvadd", p.Off, idx)})}
	case *PtrV:
		at := i.X.Type().Underlying().(*types.Pointer).Elem().Underlying().(*types.Array)
		x.oblige("index", pc, b.Cmp("bvult", idx, b.Const(64, uint64(at.Len()))))
		if p.Obj == nil {
			x.oblige("nil-deref", pc, b.False())
			unsupported("index through nil array pointer")
		}
		// keep the narrowest faithful index
		raw := get(i.Index).(*Term)
		if sortOf(at.Elem()) == nil {
			// array of non-scalar elements: Go-side vector, constant index
			return &PtrV{Obj: p.Obj, Path: append(append([]PE{}, p.Path...), PE{Index: idx}), Nil: p.Nil}
		}
		iw := bitsFor(at.Len())
		var ix *Term
		if raw.S.W > iw {
			ix = b.Extract(iw-1, 0, raw)
		} else {
			ix = b.ZExt(iw, raw)
		}
		return &PtrV{Obj: p.Obj, Path: append(append([]PE{}, p.Path...), PE{Index: ix}), Nil: p.Nil}
	}
	unsupported("IndexAddr on %T", get(i.X))
	return nil
}

func (x *Exec) unop(i *ssa.UnOp, get func(ssa.Value) Value, st *State, pc *Term) Value {
	b := x.b
	switch i.Op {
	case token.MUL:
		return x.load(get(i.X).(*PtrV), st, pc, i.X.Name())
	case token.NOT:
		return b.Not(get(i.X).(*Term))
	case token.XOR:
		return b.BVNot(get(i.X).(*Term))
	case token.SUB:
		return b.BVNeg(get(i.X).(*Term))
	case token.ARROW:
		// channel receive: only the watcher closure uses it; value irrelevant
		return &OpaqueV{T: i.Type(), Name: "recv"}
	}
	unsupported("unary operator %s", i.Op)
	return nil
}

func (x *Exec) binop(i *ssa.BinOp, xv, yv Value, st *State) Value {
	b := x.b
	xa, xok := xv.(*Term)
	ya, yok := yv.(*Term)
	if !xok || !yok {
		var eq *Term
		if isFuncKind(xv) && isFuncKind(yv) && (i.Op == token.EQL || i.Op == token.NEQ) {
			// Go compares function values with nil only
			var t *Term
			if f, ok := xv.(*FuncV); ok && f.Fn == nil {
				t = x.funcNil(yv)
			} else {
				t = x.funcNil(xv)
			}
			if i.Op == token.NEQ {
				t = b.Not(t)
			}
			return t
		}
		switch p := xv.(type) {
		case *IfaceV:
			q := yv.(*IfaceV)
			eq = x.ifaceEq(p, q)
		case *PtrV:
			q := yv.(*PtrV)
			switch {
			case p.AltC != nil || q.AltC != nil:
				eq = x.valEq(p, q)
			case p.Obj == nil:
				eq = x.ptrNil(q)
			case q.Obj == nil:
				eq = x.ptrNil(p)
			case p.Obj == q.Obj && samePath(p.Path, q.Path):
				eq = b.Or(b.And(b.Not(x.ptrNil(p)), b.Not(x.ptrNil(q))), b.And(x.ptrNil(p), x.ptrNil(q)))
			default:
				eq = b.And(x.ptrNil(p), x.ptrNil(q))
			}
		case *MapV:
			q := yv.(*MapV)
			if q.Obj == nil && q.Nil.Op == "true" {
				eq = x.mapNil(p)
			} else if p.Obj == nil && p.Nil.Op == "true" {
				eq = x.mapNil(q)
			} else {
				unsupported("map comparison")
			}
		case *SliceV:
			q := yv.(*SliceV)
			// comparison with nil only; a symbolic slice is nil iff a ghost says so:
			// modelled as cap == 0 (conservative for the code here, which never compares slices)
			if q.Obj == nil {
				eq = b.Eq(p.Cap, b.Const(64, 0))
			} else if p.Obj == nil {
				eq = b.Eq(q.Cap, b.Const(64, 0))
			} else {
				unsupported("slice comparison")
			}
		case *StrV:
			q := yv.(*StrV)
			eq = x.strEq(p, q, st)
			if i.Op == token.ADD {
				if p.Known && q.Known {
					return &StrV{Known: true, S: p.S + q.S, Len: b.Const(64, uint64(len(p.S)+len(q.S)))}
				}
				return &OpaqueV{T: i.Type(), Name: "strcat"}
			}
		case *StructV:
			eq = x.valEq(xv, yv)
		case *FuncV:
			q := yv.(*FuncV)
			eq = b.Bool((p.Fn == nil) == (q.Fn == nil))
		case *OpaqueV:
			return &OpaqueV{T: i.Type(), Name: "op"}
		default:
			unsupported("comparison of %T", xv)
		}
		if i.Op == token.EQL {
			return eq
		}
		if i.Op == token.NEQ {
			return b.Not(eq)
		}
		unsupported("operator %s on %T", i.Op, xv)
	}
	if xa.S.K == 'a' {
		if i.Op == token.EQL {
			return b.Eq(xa, ya)
		}
		return b.Not(b.Eq(xa, ya))
	}
	if xa.S.K == 'b' {
		switch i.Op {
		case token.EQL:
			return b.Eq(xa, ya)
		case token.NEQ:
			return b.Not(b.Eq(xa, ya))
		case token.AND, token.LAND:
			return b.And(xa, ya)
		case token.OR, token.LOR:
			return b.Or(xa, ya)
		}
		unsupported("bool operator %s", i.Op)
	}
	_, signed := intWidth(i.X.Type())
	switch i.Op {
	case token.ADD:
		return b.Bin("bvadd", xa, ya)
	case token.SUB:
		return b.Bin("bvsub", xa, ya)
	case token.MUL:
		return b.Bin("bvmul", xa, ya)
	case token.AND:
		return b.Bin("bvand", xa, ya)
	case token.OR:
		return b.Bin("bvor", xa, ya)
	case token.XOR:
		return b.Bin("bvxor", xa, ya)
	case token.AND_NOT:
		return b.Bin("bvand", xa, b.BVNot(ya))
	case token.QUO, token.REM:
		// division by zero is a safety obligation recorded by the caller (doDiv)
		op := "bvudiv"
		if i.Op == token.REM {
			op = "bvurem"
		}
		if signed {
			op = "bvsdiv"
			if i.Op == token.REM {
				op = "bvsrem"
			}
		}
		if signed && !(isC(xa) && isC(ya)) {
			return b.mk(&Term{Op: op, Args: []*Term{xa, ya}, S: xa.S})
		}
		if signed {
			p, q := sext64(xa.Val, xa.S.W), sext64(ya.Val, ya.S.W)
			if q != 0 {
				if i.Op == token.REM {
					return b.Const(xa.S.W, uint64(p%q))
				}
				return b.Const(xa.S.W, uint64(p/q))
			}
			return b.mk(&Term{Op: op, Args: []*Term{xa, ya}, S: xa.S})
		}
		return b.Bin(op, xa, ya)
	case token.SHL, token.SHR:
		w := xa.S.W
		cnt := ya
		big := b.False()
		if _, ysigned := intWidth(i.Y.Type()); ysigned {
			// negative shift count panics; recorded as safety by caller? go/ssa inserts no check: model as obligation
			x.oblige("shift-count", b.True(), b.Cmp("bvsge", ya, b.Const(ya.S.W, 0)))
		}
		if cnt.S.W > w {
			big = b.Cmp("bvuge", cnt, b.Const(cnt.S.W, uint64(w)))
			cnt = b.Extract(w-1, 0, cnt)
		} else {
			cnt = b.ZExt(w, cnt)
			if w&(w-1) != 0 || true {
				big = b.Cmp("bvuge", cnt, b.Const(w, uint64(w)))
			}
		}
		if i.Op == token.SHL {
			return b.Ite(big, b.Const(w, 0), b.Bin("bvshl", xa, cnt))
		}
		if signed {
			return b.Ite(big, b.Bin("bvashr", xa, b.Const(w, uint64(w-1))), b.Bin("bvashr", xa, cnt))
		}
		return b.Ite(big, b.Const(w, 0), b.Bin("bvlshr", xa, cnt))
	case token.EQL:
		return b.Eq(xa, ya)
	case token.NEQ:
		return b.Not(b.Eq(xa, ya))
	case token.LSS:
		if signed {
			return b.Cmp("bvslt", xa, ya)
		}
		return b.Cmp("bvult", xa, ya)
	case token.LEQ:
		if signed {
			return b.Cmp("bvsle", xa, ya)
		}
		return b.Cmp("bvule", xa, ya)
	case token.GTR:
		if signed {
			return b.Cmp("bvsgt", xa, ya)
		}
		return b.Cmp("bvugt", xa, ya)
	case token.GEQ:
		if signed {
			return b.Cmp("bvsge", xa, ya)
		}
		return b.Cmp("bvuge", xa, ya)
	}
	unsupported("binary operator %s", i.Op)
	return nil
}

func (x *Exec) valEq(a, c Value) *Term {
	b := x.b
	switch p := a.(type) {
	case *Term:
		return b.Eq(p, c.(*Term))
	case *StructV:
		q := c.(*StructV)
		r := b.True()
		for i := range p.F {
			r = b.And(r, x.valEq(p.F[i], q.F[i]))
		}
		return r
	case *IfaceV:
		return x.ifaceEq(p, c.(*IfaceV))
	case *PtrV:
		q := c.(*PtrV)
		if p.AltC != nil {
			return b.Ite(p.AltC, x.valEq(p.AltA, q), x.valEq(p.AltB, q))
		}
		if q.AltC != nil {
			return b.Ite(q.AltC, x.valEq(p, q.AltA), x.valEq(p, q.AltB))
		}
		if p.Obj == q.Obj && samePath(p.Path, q.Path) {
			return b.Eq(x.ptrNil(p), x.ptrNil(q))
		}
		if p.Obj != nil && q.Obj != nil {
			// different locations: equal only if both nil
			return b.And(x.ptrNil(p), x.ptrNil(q))
		}
		return b.And(x.ptrNil(p), x.ptrNil(q))
	case *MapV:
		q := c.(*MapV)
		if p.Obj == q.Obj {
			return b.Eq(x.mapNil(p), x.mapNil(q))
		}
		return b.And(x.mapNil(p), x.mapNil(q))
	case *SliceV:
		q := c.(*SliceV)
		if p.Obj == q.Obj {
			return b.AndN(b.Eq(p.Off, q.Off), b.Eq(p.Len, q.Len), b.Eq(p.Cap, q.Cap))
		}
		return b.False()
	case *StrV:
		q := c.(*StrV)
		if p.Known && q.Known {
			return b.Bool(p.S == q.S)
		}
		if p == q {
			return b.True()
		}
		return b.False()
	case nil:
		return b.Bool(c == nil)
	}
	unsupported("equality on %T", a)
	return nil
}

func (x *Exec) ifaceEq(p, q *IfaceV) *Term {
	b := x.b
	if p.AltC != nil {
		return b.Ite(p.AltC, x.ifaceEq(p.AltA, q), x.ifaceEq(p.AltB, q))
	}
	if q.AltC != nil {
		return b.Ite(q.AltC, x.ifaceEq(p, q.AltA), x.ifaceEq(p, q.AltB))
	}
	pn, qn := x.ifaceNil(p), x.ifaceNil(q)
	if pn.Op == "true" {
		return qn
	}
	if qn.Op == "true" {
		return pn
	}
	if p.Opaque != "" && p.Opaque == q.Opaque && p.IdT == nil && q.IdT == nil {
		return b.Eq(pn, qn)
	}
	if p.Dyn == nil && q.Dyn == nil && (p.IdT != nil || q.IdT != nil) {
		return b.Or(b.And(pn, qn), b.AndN(b.Not(pn), b.Not(qn), b.Eq(x.ifaceId(p), x.ifaceId(q))))
	}
	if p.Dyn != nil && q.Dyn != nil {
		if !types.Identical(p.DynT, q.DynT) {
			return b.And(pn, qn)
		}
		return b.Or(b.And(pn, qn), b.AndN(b.Not(pn), b.Not(qn), x.valEq(p.Dyn, q.Dyn)))
	}
	if p == q {
		return b.True()
	}
	// different identities: equal only if both nil
	return b.And(pn, qn)
}

func (x *Exec) convert(v Value, from, to types.Type, st *State) Value {
	b := x.b
	if t, ok := v.(*Term); ok && isInteger(from) && isInteger(to) {
		fw, fs := intWidth(from)
		tw, _ := intWidth(to)
		switch {
		case tw == fw:
			return t
		case tw < fw:
			return b.Extract(tw-1, 0, t)
		case fs:
			return b.SExt(tw, t)
		}
		return b.ZExt(tw, t)
	}
	// string <-> []byte
	if s, ok := v.(*StrV); ok {
		if _, isSl := to.Underlying().(*types.Slice); isSl {
			o := x.newObj("bytes-of-string", nil)
			if s.Known {
				a := b.ConstArr(Arr(BV(64), BV(8)), b.Const(8, 0))
				for k := 0; k < len(s.S); k++ {
					a = b.Store(a, b.Const(64, uint64(k)), b.Const(8, uint64(s.S[k])))
				}
				st.h[o] = a
			} else {
				x.curHeapForStr = st.h
				st.h[o] = x.strArr(s)
			}
			return &SliceV{Obj: o, Off: b.Const(64, 0), Len: s.Len, Cap: s.Len}
		}
		if isString(to) {
			return s
		}
	}
	if sl, ok := v.(*SliceV); ok && isString(to) {
		o := x.newObj("string-of-bytes", nil)
		if sl.Obj != nil {
			st.h[o] = st.h[sl.Obj]
		} else {
			st.h[o] = b.ConstArr(Arr(BV(64), BV(8)), b.Const(8, 0))
		}
		if !(isC(sl.Off) && sl.Off.Val == 0) {
			unsupported("string of offset slice")
		}
		return &StrV{Obj: o, Len: sl.Len}
	}
	if _, ok := v.(*OpaqueV); ok {
		return &OpaqueV{T: to, Name: "conv"}
	}
	unsupported("conversion %v -> %v", from, to)
	return nil
}

func (x *Exec) strByte(s *StrV, idx *Term, st *State) *Term {
	b := x.b
	if s.Known {
		if isC(idx) {
			return b.Const(8, uint64(s.S[idx.Val]))
		}
		a := b.ConstArr(Arr(BV(64), BV(8)), b.Const(8, 0))
		for k := 0; k < len(s.S); k++ {
			a = b.Store(a, b.Const(64, uint64(k)), b.Const(8, uint64(s.S[k])))
		}
		return x.sel(a, idx)
	}
	x.curHeapForStr = st.h
	return x.sel(x.strArr(s), idx)
}

func (x *Exec) strEq(p, q *StrV, st *State) *Term {
	b := x.b
	if p.Known && q.Known {
		return b.Bool(p.S == q.S)
	}
	if p == q {
		return b.True()
	}
	// comparison with the empty string is a length test
	if q.Known && q.S == "" {
		return b.Eq(p.Len, b.Const(64, 0))
	}
	if p.Known && p.S == "" {
		return b.Eq(q.Len, b.Const(64, 0))
	}
	unsupported("comparison of symbolic strings")
	return nil
}

func (x *Exec) sliceOp(i *ssa.Slice, get func(ssa.Value) Value, st *State, pc *Term) Value {
	b := x.b
	idx := func(v ssa.Value) *Term {
		if v == nil {
			return nil
		}
		return x.toIdx64(get(v).(*Term), v.Type())
	}
	lo, hi, mx := idx(i.Low), idx(i.High), idx(i.Max)
	if mx != nil {
		unsupported("3-index slice")
	}
	if lo == nil {
		lo = b.Const(64, 0)
	}
	switch p := get(i.X).(type) {
	case *SliceV:
		if hi == nil {
			hi = p.Len
		}
		// 0 <= lo <= hi <= cap
		x.oblige("slice-bounds", pc, b.AndN(b.Cmp("bvule", lo, hi), b.Cmp("bvule", hi, p.Cap)))
		return &SliceV{Obj: p.Obj, Path: p.Path, Off: b.Bin("bvadd", p.Off, lo), Len: b.Bin("bvsub", hi, lo), Cap: b.Bin("bvsub", p.Cap, lo)}
	case *PtrV:
		at := i.X.Type().Underlying().(*types.Pointer).Elem().Underlying().(*types.Array)
		n := b.Const(64, uint64(at.Len()))
		if hi == nil {
			hi = n
		}
		x.oblige("slice-bounds", pc, b.AndN(b.Cmp("bvule", lo, hi), b.Cmp("bvule", hi, n)))
		if p.Obj == nil {
			unsupported("slice of nil array pointer")
		}
		return &SliceV{Obj: p.Obj, Path: p.Path, Off: lo, Len: b.Bin("bvsub", hi, lo), Cap: b.Bin("bvsub", n, lo)}
	case *StrV:
		if hi == nil {
			hi = p.Len
		}
		x.oblige("slice-bounds", pc, b.AndN(b.Cmp("bvule", lo, hi), b.Cmp("bvule", hi, p.Len)))
		if p.Known && isC(lo) && isC(hi) && lo.Val <= hi.Val && hi.Val <= uint64(len(p.S)) {
			s := p.S[lo.Val:hi.Val]
			return &StrV{Known: true, S: s, Len: b.Const(64, uint64(len(s)))}
		}
		unsupported("symbolic string slicing")
	}
	unsupported("Slice on %T", get(i.X))
	return nil
}

func (x *Exec) typeAssert(i *ssa.TypeAssert, v *IfaceV, st *State, pc *Term) Value {
	b := x.b
	if v.AltC != nil {
		ra := x.typeAssert(i, v.AltA, st, b.And(pc, v.AltC))
		rb := x.typeAssert(i, v.AltB, st, b.And(pc, b.Not(v.AltC)))
		x.curHeapForStr = st.h
		x.curHeapA, x.curHeapB = st.h, st.h
		r := x.iteV(v.AltC, ra, rb)
		for o, ov := range x.pendingObjs {
			st.h[o] = ov
			delete(x.pendingObjs, o)
		}
		return r
	}
	var ok *Term
	var val Value
	if v.Dyn != nil {
		if types.Identical(v.DynT, i.AssertedType) {
			ok = b.Not(x.ifaceNil(v))
			val = v.Dyn
		} else if _, isIface := i.AssertedType.Underlying().(*types.Interface); isIface {
			if types.Implements(v.DynT, i.AssertedType.Underlying().(*types.Interface)) {
				ok = b.Not(x.ifaceNil(v))
				val = v
			} else {
				ok = b.False()
			}
		} else {
			ok = b.False()
		}
	} else if v.Opaque != "" {
		// unknown dynamic type: a boolean unknown decides, the value is symbolic;
		// the same question about the same value always has the same answer
		key := v.Opaque + "|" + typeName(i.AssertedType)
		if x.asserts == nil {
			x.asserts = map[string][2]Value{}
		}
		if m, seen := x.asserts[key]; seen {
			ok, val = m[0].(*Term), m[1]
		} else {
			isT := b.Var("is_"+typeName(i.AssertedType)+"_"+sanitize(v.Opaque), BoolS())
			if x.ghostGoverned(v, i.AssertedType) && onlyReceiverUse(i) {
				// a devirtualised fast path (`if dm, ok := cpu.Memory.(DumbMemory); ok`):
				// the asserted value is the same object; a method called on it
				// directly is the very call the interface would dispatch to, so it is
				// governed by the same interface call rule
				val = &GhostRecvV{Iface: v, T: i.AssertedType}
			} else {
				val = x.symV(i.AssertedType, "asserted_"+sanitize(v.Opaque), x.assertObjs())
			}
			x.asserts[key] = [2]Value{isT, val}
			if x.assertTypes == nil {
				x.assertTypes = map[string]types.Type{}
			}
			x.assertTypes[key] = i.AssertedType
			ok = isT
		}
		for o, ov := range x.assertHeap {
			if _, have := st.h[o]; !have {
				st.h[o] = ov
			}
		}
		ok = b.And(b.Not(x.ifaceNil(v)), ok)
	} else {
		ok = b.False()
	}
	if val == nil {
		val = x.zeroV(i.AssertedType)
	}
	if i.CommaOk {
		return &TupleV{E: []Value{val, ok}}
	}
	x.oblige("type-assert", pc, ok)
	return val
}

// onlyReceiverUse: every use of the asserted value is as the receiver of a
// static method call (then - and only then - it can stand for the interface
// value it was asserted from).
func onlyReceiverUse(i *ssa.TypeAssert) bool {
	var vals []ssa.Value
	if i.CommaOk {
		for _, r := range *i.Referrers() {
			if ex, ok := r.(*ssa.Extract); ok && ex.Index == 0 {
				vals = append(vals, ex)
			}
		}
	} else {
		vals = []ssa.Value{i}
	}
	for _, v := range vals {
		for _, r := range *v.Referrers() {
			switch u := r.(type) {
			case *ssa.DebugRef:
			case *ssa.Call:
				if u.Call.IsInvoke() || u.Call.StaticCallee() == nil || len(u.Call.Args) == 0 || u.Call.Args[0] != v || u.Call.StaticCallee().Signature.Recv() == nil {
					return false
				}
				for _, a := range u.Call.Args[1:] {
					if a == v {
						return false
					}
				}
			default:
				return false
			}
		}
	}
	return true
}

func typeName(t types.Type) string {
	s := types.TypeString(t, func(p *types.Package) string { return p.Name() })
	s = strings.NewReplacer("*", "p", ".", "_", "[", "_", "]", "_", " ", "").Replace(s)
	return s
}

func (x *Exec) lookup(i *ssa.Lookup, get func(ssa.Value) Value, st *State, pc *Term) Value {
	b := x.b
	switch m := get(i.X).(type) {
	case *MapV:
		k := get(i.Index).(*Term)
		mt := m.T
		var present *Term
		var val Value
		if m.Obj == nil {
			present = b.False()
			val = x.zeroV(mt.Elem())
		} else {
			mv := st.h[m.Obj].(*StructV)
			present = b.And(b.Not(x.mapNil(m)), b.Select(mv.F[0].(*Term), k))
			if mv.F[1] != nil {
				zero := x.zeroV(mt.Elem()).(*Term)
				val = b.Ite(present, b.Select(mv.F[1].(*Term), k), zero)
			} else {
				val = x.zeroV(mt.Elem())
			}
		}
		if i.CommaOk {
			return &TupleV{E: []Value{val, present}}
		}
		return val
	case *StrV:
		idx := x.toIdx64(get(i.Index).(*Term), i.Index.Type())
		x.oblige("index", pc, b.Cmp("bvult", idx, m.Len))
		return x.strByte(m, idx, st)
	}
	unsupported("Lookup on %T", get(i.X))
	return nil
}

var debugIf = os.Getenv("VERIF_DEBUG_IF") != ""

func dumpTerm(t *Term, depth int) string {
	switch t.Op {
	case "const":
		return fmt.Sprintf("#%x", t.Val)
	case "var":
		return t.Name
	case "true", "false":
		return t.Op
	}
	if depth == 0 {
		return "…"
	}
	var as []string
	for _, a := range t.Args {
		as = append(as, dumpTerm(a, depth-1))
	}
	op := t.Op
	if op == "extract" {
		op = fmt.Sprintf("extract[%d:%d]", t.Val>>16, t.Val&0xffff)
	}
	return "(" + op + " " + strings.Join(as, " ") + ")"
}

func (x *Exec) assertObjs() Heap {
	if x.assertHeap == nil {
		x.assertHeap = Heap{}
	}
	return x.assertHeap
}
