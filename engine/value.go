package main

import (
	"fmt"
	"go/types"
	"reflect"

	"golang.org/x/tools/go/ssa"
)

// Symbolic values of the executor.
type Value interface{}

type StructV struct{ F []Value }

// ArrV is an array whose elements are not scalars (structs, strings, …):
// a Go-side vector, indexable by constants only.
type ArrV struct{ E []Value }
type TupleV struct{ E []Value }

// PE is one step of an access path inside an object.
type PE struct {
	Field int
	Index *Term // non-nil: array element
}

type Object struct {
	id    int
	name  string
	T     types.Type
	Share bool // shared with a concurrently running closure: loads return fresh values
}

// PtrV: Obj == nil means the nil pointer. Nil (optional) is a Bool term that
// says the pointer is nil although an object is attached (symbolic nil-ness).
type PtrV struct {
	Obj  *Object
	Path []PE
	Nil  *Term
	// AltC != nil: the pointer depends on the path (AltC ? AltA : AltB) and the
	// two designate different locations; no other field is used then
	AltC       *Term
	AltA, AltB *PtrV
}

// IfaceV is an interface value.  Exactly one of the following shapes:
//
//	definitely nil:  Nil == true
//	known dynamic:   Dyn != nil (DynT its type), Nil optional
//	opaque:          Opaque != "" (identity), Nil optional symbolic
type IfaceV struct {
	IdT    *Term // identity as a term (BV32) for values merged from different opaque identities
	Nil    *Term
	Dyn    Value
	DynT   types.Type
	Opaque string
	T      types.Type
	// AltC != nil: the value depends on the path (AltC ? AltA : AltB) and the two
	// have different dynamic types / identities; no other field is used then
	AltC       *Term
	AltA, AltB *IfaceV
}

type ifaceLeaf struct {
	g *Term
	v *IfaceV
}

func (x *Exec) ifaceLeaves(v *IfaceV, g *Term, out []ifaceLeaf) []ifaceLeaf {
	if g.Op == "false" {
		return out
	}
	if v.AltC != nil {
		out = x.ifaceLeaves(v.AltA, x.b.And(g, v.AltC), out)
		return x.ifaceLeaves(v.AltB, x.b.And(g, x.b.Not(v.AltC)), out)
	}
	return append(out, ifaceLeaf{g, v})
}

type SliceV struct {
	Obj           *Object // nil: the nil slice
	Path          []PE    // path of the backing array inside Obj
	Off, Len, Cap *Term   // BV64
}

// MapV: the object's value is *StructV{present Array(K,Bool), val Array(K,V)}
type MapV struct {
	Obj   *Object
	Nil   *Term
	T     *types.Map
	Fresh *Term // the map object was created during the current function execution (nil: no)
}

type FuncV struct {
	Fn       *ssa.Function
	Bindings []Value
}

// FuncIteV: a function value that depends on the path (C ? A : B); A and B are
// *FuncV (Fn == nil: the nil function), *FuncIteV, or *OpaqueV (an unknown
// function, e.g. the entry value of a func-typed field).
type FuncIteV struct {
	C    *Term
	A, B Value
}

func isFuncKind(v Value) bool {
	switch u := v.(type) {
	case *FuncV, *FuncIteV:
		return true
	case *OpaqueV:
		if u.T != nil {
			_, ok := u.T.Underlying().(*types.Signature)
			return ok
		}
	}
	return false
}

// funcNil: is the function value nil?  An unknown function has an unknown
// (but fixed) answer.
func (x *Exec) funcNil(v Value) *Term {
	b := x.b
	switch u := v.(type) {
	case *FuncV:
		return b.Bool(u.Fn == nil)
	case *FuncIteV:
		return b.Ite(u.C, x.funcNil(u.A), x.funcNil(u.B))
	case *OpaqueV:
		if x.opaqueNil == nil {
			x.opaqueNil = map[*OpaqueV]*Term{}
		}
		if t, ok := x.opaqueNil[u]; ok {
			return t
		}
		t := b.Fresh("funcnil_"+sanitize(u.Name), BoolS())
		x.opaqueNil[u] = t
		return t
	}
	unsupported("nil test of %T", v)
	return nil
}

type funcLeaf struct {
	g *Term
	v Value
}

func (x *Exec) funcLeaves(v Value, g *Term, out []funcLeaf) []funcLeaf {
	if g.Op == "false" {
		return out
	}
	if u, ok := v.(*FuncIteV); ok {
		out = x.funcLeaves(u.A, x.b.And(g, u.C), out)
		return x.funcLeaves(u.B, x.b.And(g, x.b.Not(u.C)), out)
	}
	return append(out, funcLeaf{g, v})
}

// GhostRecvV: the result of asserting an opaque, ghost-governed interface value
// (the user's Memory / IO) to a concrete type of the module.  Only method calls
// are defined on it; they go through the interface call rule of the original.
type GhostRecvV struct {
	Iface *IfaceV
	T     types.Type
}

// degradeGhostRecv: an arbitrary value of the asserted type (slice types only).
func (x *Exec) degradeGhostRecv(g *GhostRecvV) Value {
	if x.degraded == nil {
		x.degraded = map[*GhostRecvV]Value{}
	}
	if v, ok := x.degraded[g]; ok {
		return v
	}
	st, ok := g.T.Underlying().(*types.Slice)
	if !ok {
		return nil
	}
	es := sortOf(st.Elem())
	if es == nil {
		return nil
	}
	b := x.b
	x.seq++
	name := fmt.Sprintf("asserted%d", x.seq)
	o := x.newObj(name, nil)
	x.pendingObjs[o] = b.Var(name+"_arr", Arr(BV(64), es))
	ln, cp := b.Var(name+"_len", BV(64)), b.Var(name+"_cap", BV(64))
	x.assume(b.AndN(b.Cmp("bvsle", b.Const(64, 0), ln), b.Cmp("bvsle", ln, cp), b.Cmp("bvsle", cp, b.Const(64, 1<<40))))
	v := &SliceV{Obj: o, Off: b.Const(64, 0), Len: ln, Cap: cp}
	x.degraded[g] = v
	return v
}

// StrV: a string; Known strings carry their Go value.
type StrV struct {
	Known bool
	S     string
	Obj   *Object // backing bytes for symbolic strings (Array BV64 BV8)
	Len   *Term
}

// OpaqueV carries values the engine does not interpret.
type OpaqueV struct {
	T    types.Type
	Name string
}

type Heap map[*Object]Value

func (h Heap) clone() Heap {
	n := make(Heap, len(h)+4)
	for k, v := range h {
		n[k] = v
	}
	return n
}

type Unsupported struct{ Msg string }

func unsupported(f string, a ...interface{}) {
	panic(Unsupported{fmt.Sprintf(f, a...)})
}

func bitsFor(n int64) int {
	w := 1
	for (int64(1) << uint(w)) < n {
		w++
	}
	return w
}

func intWidth(t types.Type) (int, bool) { // width, signed
	b, ok := t.Underlying().(*types.Basic)
	if !ok {
		unsupported("not a basic type: %v", t)
	}
	switch b.Kind() {
	case types.Uint8:
		return 8, false
	case types.Int8:
		return 8, true
	case types.Uint16:
		return 16, false
	case types.Int16:
		return 16, true
	case types.Uint32:
		return 32, false
	case types.Int32:
		return 32, true
	case types.Uint64, types.Uint, types.Uintptr:
		return 64, false
	case types.Int64, types.Int, types.UntypedInt, types.UntypedRune:
		return 64, true
	}
	unsupported("unsupported basic type %v", b)
	return 0, false
}

func isBool(t types.Type) bool {
	b, ok := t.Underlying().(*types.Basic)
	return ok && b.Info()&types.IsBoolean != 0
}
func isString(t types.Type) bool {
	b, ok := t.Underlying().(*types.Basic)
	return ok && b.Info()&types.IsString != 0
}
func isInteger(t types.Type) bool {
	b, ok := t.Underlying().(*types.Basic)
	return ok && b.Info()&types.IsInteger != 0
}

func sortOf(t types.Type) *Sort {
	switch u := t.Underlying().(type) {
	case *types.Basic:
		if u.Info()&types.IsBoolean != 0 {
			return BoolS()
		}
		if u.Info()&types.IsInteger != 0 {
			w, _ := intWidth(t)
			return BV(w)
		}
	case *types.Array:
		es := sortOf(u.Elem())
		if es == nil {
			return nil
		}
		return Arr(BV(bitsFor(u.Len())), es)
	}
	return nil
}

func (x *Exec) zeroV(t types.Type) Value {
	b := x.b
	switch u := t.Underlying().(type) {
	case *types.Basic:
		if u.Info()&types.IsBoolean != 0 {
			return b.False()
		}
		if u.Info()&types.IsString != 0 {
			return &StrV{Known: true, S: "", Len: b.Const(64, 0)}
		}
		if u.Info()&types.IsInteger != 0 {
			w, _ := intWidth(t)
			return b.Const(w, 0)
		}
		if u.Kind() == types.UnsafePointer {
			return &OpaqueV{T: t, Name: "unsafe.Pointer(nil)"}
		}
	case *types.Struct:
		s := &StructV{}
		for i := 0; i < u.NumFields(); i++ {
			s.F = append(s.F, x.zeroV(u.Field(i).Type()))
		}
		return s
	case *types.Array:
		es := sortOf(u.Elem())
		if es != nil && es.K != 'a' {
			return b.ConstArr(sortOf(t), x.zeroV(u.Elem()).(*Term))
		}
		if es != nil {
			return b.ConstArr(sortOf(t), x.zeroV(u.Elem()).(*Term))
		}
		if u.Len() > 4096 {
			unsupported("large array of %v", u.Elem())
		}
		av := &ArrV{}
		for i := int64(0); i < u.Len(); i++ {
			av.E = append(av.E, x.zeroV(u.Elem()))
		}
		return av
	case *types.Pointer:
		return &PtrV{}
	case *types.Interface:
		return &IfaceV{Nil: b.True(), T: t}
	case *types.Slice:
		return &SliceV{Obj: nil, Off: b.Const(64, 0), Len: b.Const(64, 0), Cap: b.Const(64, 0)}
	case *types.Map:
		return &MapV{Obj: nil, Nil: b.True(), T: u}
	case *types.Signature:
		return &FuncV{}
	case *types.Tuple:
		tv := &TupleV{}
		for i := 0; i < u.Len(); i++ {
			tv.E = append(tv.E, x.zeroV(u.At(i).Type()))
		}
		return tv
	case *types.Chan:
		return &OpaqueV{T: t, Name: "nilchan"}
	}
	unsupported("zero value of %v", t)
	return nil
}

func mapObjSorts(m *types.Map) (ks, vs *Sort) {
	ks = sortOf(m.Key())
	if st, ok := m.Elem().Underlying().(*types.Struct); ok && st.NumFields() == 0 {
		return ks, nil
	}
	vs = sortOf(m.Elem())
	return
}

// symV builds a fully symbolic value of type t. Reference types get fresh
// objects; hyps collects well-formedness assumptions (slice 0<=len<=cap).
func (x *Exec) symV(t types.Type, name string, h Heap) Value {
	b := x.b
	switch u := t.Underlying().(type) {
	case *types.Basic:
		if s := sortOf(t); s != nil {
			return b.Var(name, s)
		}
		if u.Info()&types.IsString != 0 {
			o := x.newObj(name+".bytes", nil)
			h[o] = b.Var(name+"_bytes", Arr(BV(64), BV(8)))
			ln := b.Var(name+"_len", BV(64))
			x.assume(b.Cmp("bvsle", b.Const(64, 0), ln))
			x.assume(b.Cmp("bvsle", ln, b.Const(64, 1<<40)))
			return &StrV{Obj: o, Len: ln}
		}
	case *types.Array:
		if s := sortOf(t); s != nil {
			return b.Var(name, s)
		}
	case *types.Struct:
		s := &StructV{}
		for i := 0; i < u.NumFields(); i++ {
			s.F = append(s.F, x.symV(u.Field(i).Type(), name+"_"+u.Field(i).Name(), h))
		}
		return s
	case *types.Pointer:
		o := x.newObj(name, u.Elem())
		h[o] = x.symV(u.Elem(), name+"_", h)
		return &PtrV{Obj: o, Nil: b.Var(name+"_isnil", BoolS())}
	case *types.Interface:
		return &IfaceV{Nil: b.Var(name+"_isnil", BoolS()), Opaque: name, T: t}
	case *types.Slice:
		es := sortOf(u.Elem())
		if es == nil {
			unsupported("symbolic slice of %v", u.Elem())
		}
		o := x.newObj(name+".arr", nil)
		h[o] = b.Var(name+"_arr", Arr(BV(64), es))
		ln, cp := b.Var(name+"_len", BV(64)), b.Var(name+"_cap", BV(64))
		x.assume(b.Cmp("bvsle", b.Const(64, 0), ln))
		x.assume(b.Cmp("bvsle", ln, cp))
		x.assume(b.Cmp("bvsle", cp, b.Const(64, 1<<40)))
		// a nil slice is the special case len == cap == 0 (indistinguishable
		// by the operations in the subset except comparison with nil)
		return &SliceV{Obj: o, Off: b.Const(64, 0), Len: ln, Cap: cp}
	case *types.Map:
		ks, vs := mapObjSorts(u)
		if ks == nil {
			unsupported("map key %v", u.Key())
		}
		o := x.newObj(name+".map", nil)
		mv := &StructV{F: []Value{b.Var(name+"_present", Arr(ks, BoolS())), nil}}
		if vs != nil {
			mv.F[1] = b.Var(name+"_val", Arr(ks, vs))
		}
		h[o] = mv
		return &MapV{Obj: o, Nil: b.Var(name+"_isnil", BoolS()), T: u}
	}
	return &OpaqueV{T: t, Name: name}
}

func (x *Exec) iteV(c *Term, a, bb Value) Value {
	b := x.b
	if a == bb {
		return a
	}
	if a != nil && bb != nil && isFuncKind(a) && isFuncKind(bb) {
		if p, ok := a.(*FuncV); ok {
			if q, ok := bb.(*FuncV); ok && p.Fn == q.Fn && len(p.Bindings) == 0 && len(q.Bindings) == 0 {
				return p
			}
		}
		if c.Op == "true" {
			return a
		}
		if c.Op == "false" {
			return bb
		}
		return &FuncIteV{C: c, A: a, B: bb}
	}
	if a != nil && bb != nil && reflect.TypeOf(a) != reflect.TypeOf(bb) {
		// a ghost-governed receiver that is stored somewhere and merged with an
		// ordinary value (a cached copy of the user's memory …) loses its tie to
		// the interface rule: from here on it is just some value of its type
		if g, ok := a.(*GhostRecvV); ok {
			if d := x.degradeGhostRecv(g); d != nil {
				return x.iteV(c, d, bb)
			}
		}
		if g, ok := bb.(*GhostRecvV); ok {
			if d := x.degradeGhostRecv(g); d != nil {
				return x.iteV(c, a, d)
			}
		}
		unsupported("merge of values of different kinds (%T, %T): e.g. a non-constant function value", a, bb)
	}
	switch p := a.(type) {
	case *Term:
		return b.Ite(c, p, bb.(*Term))
	case *StructV:
		q := bb.(*StructV)
		r := &StructV{F: make([]Value, len(p.F))}
		for i := range p.F {
			r.F[i] = x.iteV(c, p.F[i], q.F[i])
		}
		return r
	case *ArrV:
		q := bb.(*ArrV)
		r := &ArrV{E: make([]Value, len(p.E))}
		for i := range p.E {
			r.E[i] = x.iteV(c, p.E[i], q.E[i])
		}
		return r
	case *TupleV:
		q := bb.(*TupleV)
		r := &TupleV{E: make([]Value, len(p.E))}
		for i := range p.E {
			r.E[i] = x.iteV(c, p.E[i], q.E[i])
		}
		return r
	case *PtrV:
		q := bb.(*PtrV)
		if p.AltC != nil || q.AltC != nil {
			return &PtrV{AltC: c, AltA: p, AltB: q}
		}
		pn, qn := x.ptrNil(p), x.ptrNil(q)
		if p.Obj == nil && q.Obj == nil {
			return p
		}
		if p.Obj == nil {
			return &PtrV{Obj: q.Obj, Path: q.Path, Nil: b.Ite(c, pn, qn)}
		}
		if q.Obj == nil {
			return &PtrV{Obj: p.Obj, Path: p.Path, Nil: b.Ite(c, pn, qn)}
		}
		if p.Obj != q.Obj || !samePath(p.Path, q.Path) {
			// different locations (a register selected by opcode bits …): kept
			// apart, every load and store splits on the condition
			return &PtrV{AltC: c, AltA: p, AltB: q}
		}
		return &PtrV{Obj: p.Obj, Path: p.Path, Nil: b.Ite(c, pn, qn)}
	case *IfaceV:
		q := bb.(*IfaceV)
		if p.AltC != nil || q.AltC != nil {
			return &IfaceV{AltC: c, AltA: p, AltB: q, T: p.T}
		}
		pn, qn := x.ifaceNil(p), x.ifaceNil(q)
		switch {
		case p.Dyn == nil && p.Opaque == "" && q.Dyn == nil && q.Opaque == "":
			return p
		case p.Dyn == nil && p.Opaque == "":
			return &IfaceV{Nil: b.Ite(c, pn, qn), Dyn: q.Dyn, DynT: q.DynT, Opaque: q.Opaque, T: q.T}
		case q.Dyn == nil && q.Opaque == "":
			return &IfaceV{Nil: b.Ite(c, pn, qn), Dyn: p.Dyn, DynT: p.DynT, Opaque: p.Opaque, T: p.T}
		case p.Opaque != "" && p.Opaque == q.Opaque:
			return &IfaceV{Nil: b.Ite(c, pn, qn), Opaque: p.Opaque, T: p.T}
		case p.Dyn != nil && q.Dyn != nil && types.Identical(p.DynT, q.DynT):
			return &IfaceV{Nil: b.Ite(c, pn, qn), Dyn: x.iteV(c, p.Dyn, q.Dyn), DynT: p.DynT, T: p.T}
		case p.Dyn == nil && q.Dyn == nil:
			// two opaque values of different identity (error values …)
			return &IfaceV{Nil: b.Ite(c, pn, qn), Opaque: "#merged", IdT: b.Ite(c, x.ifaceId(p), x.ifaceId(q)), T: p.T}
		}
		// different dynamic types (an opaque user value and a concrete one, two
		// concrete types): kept apart, every use splits on the condition
		return &IfaceV{AltC: c, AltA: p, AltB: q, T: p.T}
	case *SliceV:
		q := bb.(*SliceV)
		if p.Obj != q.Obj || !samePath(p.Path, q.Path) {
			if p.Obj == nil {
				return &SliceV{Obj: q.Obj, Path: q.Path, Off: b.Ite(c, p.Off, q.Off), Len: b.Ite(c, p.Len, q.Len), Cap: b.Ite(c, p.Cap, q.Cap)}
			}
			if q.Obj == nil {
				return &SliceV{Obj: p.Obj, Path: p.Path, Off: b.Ite(c, p.Off, q.Off), Len: b.Ite(c, p.Len, q.Len), Cap: b.Ite(c, p.Cap, q.Cap)}
			}
			// different backing objects, both at offset 0 with plain array values:
			// a fresh object whose content is chosen by the condition
			if x.curHeapForStr != nil && len(p.Path) == 0 && len(q.Path) == 0 && isC(p.Off) && p.Off.Val == 0 && isC(q.Off) && q.Off.Val == 0 {
				pa, ok1 := x.curHeapA[p.Obj].(*Term)
				qa, ok2 := x.curHeapB[q.Obj].(*Term)
				if ok1 && ok2 && pa.S == qa.S {
					o := x.newObj("merged-slice", nil)
					x.pendingObjs[o] = b.Ite(c, pa, qa)
					return &SliceV{Obj: o, Off: p.Off, Len: b.Ite(c, p.Len, q.Len), Cap: b.Ite(c, p.Cap, q.Cap)}
				}
			}
			if debugIf {
				panic("merge of slices over different objects")
			}
			unsupported("merge of slices over different objects")
		}
		return &SliceV{Obj: p.Obj, Path: p.Path, Off: b.Ite(c, p.Off, q.Off), Len: b.Ite(c, p.Len, q.Len), Cap: b.Ite(c, p.Cap, q.Cap)}
	case *MapV:
		q := bb.(*MapV)
		fr := func(m *MapV) *Term {
			if m.Fresh == nil {
				return b.False()
			}
			return m.Fresh
		}
		if p.Obj != q.Obj {
			if p.Obj == nil {
				return &MapV{Obj: q.Obj, Nil: b.Ite(c, x.mapNil(p), x.mapNil(q)), T: q.T, Fresh: b.Ite(c, fr(p), fr(q))}
			}
			if q.Obj == nil {
				return &MapV{Obj: p.Obj, Nil: b.Ite(c, x.mapNil(p), x.mapNil(q)), T: p.T, Fresh: b.Ite(c, fr(p), fr(q))}
			}
			pa, ok1 := x.curHeapA[p.Obj].(*StructV)
			qa, ok2 := x.curHeapB[q.Obj].(*StructV)
			if !ok1 || !ok2 {
				unsupported("merge of different maps")
			}
			o := x.newObj("merged-map", nil)
			x.pendingObjs[o] = x.iteV(c, pa, qa)
			return &MapV{Obj: o, Nil: b.Ite(c, x.mapNil(p), x.mapNil(q)), T: p.T, Fresh: b.Ite(c, fr(p), fr(q))}
		}
		return &MapV{Obj: p.Obj, Nil: b.Ite(c, x.mapNil(p), x.mapNil(q)), T: p.T, Fresh: b.Ite(c, fr(p), fr(q))}
	case *StrV:
		q := bb.(*StrV)
		if p.Known && q.Known && p.S == q.S {
			return p
		}
		if x.strHeap == nil {
			unsupported("merge of different strings")
		}
		// a fresh string whose bytes and length are chosen by the condition
		pa, qa := x.strArr(p), x.strArr(q)
		o := x.newObj("merged-string", nil)
		x.strHeap[o] = b.Ite(c, pa, qa)
		return &StrV{Obj: o, Len: b.Ite(c, p.Len, q.Len)}
	case *FuncV:
		q := bb.(*FuncV)
		if p.Fn == q.Fn {
			return p
		}
		unsupported("merge of different function values")
	case *OpaqueV:
		return p
	case *GhostRecvV:
		if q := bb.(*GhostRecvV); q.Iface == p.Iface || q.Iface.Opaque == p.Iface.Opaque {
			return p
		}
		unsupported("merge of receivers asserted from different interface values")
	case nil:
		return nil
	}
	unsupported("iteV %T", a)
	return nil
}

func samePath(a, b []PE) bool {
	if len(a) != len(b) {
		return false
	}
	for i := range a {
		if a[i].Field != b[i].Field || a[i].Index != b[i].Index {
			return false
		}
	}
	return true
}

func (x *Exec) ptrNil(p *PtrV) *Term {
	if p.AltC != nil {
		return x.b.Ite(p.AltC, x.ptrNil(p.AltA), x.ptrNil(p.AltB))
	}
	if p.Obj == nil {
		return x.b.True()
	}
	if p.Nil == nil {
		return x.b.False()
	}
	return p.Nil
}
func (x *Exec) ifaceNil(p *IfaceV) *Term {
	if p.AltC != nil {
		return x.b.Ite(p.AltC, x.ifaceNil(p.AltA), x.ifaceNil(p.AltB))
	}
	if p.Nil != nil {
		return p.Nil
	}
	if p.Dyn == nil && p.Opaque == "" {
		return x.b.True()
	}
	return x.b.False()
}
func (x *Exec) mapNil(p *MapV) *Term {
	if p.Nil != nil {
		return p.Nil
	}
	if p.Obj == nil {
		return x.b.True()
	}
	return x.b.False()
}

func (x *Exec) adaptIdx(arr *Term, idx *Term) *Term {
	iw := arr.S.I.W
	if idx.S.W > iw {
		return x.b.Extract(iw-1, 0, idx)
	}
	return x.b.ZExt(iw, idx)
}

// selArrV reads an element of a Go-side vector (array of structs, functions,
// interfaces …); a symbolic index selects among all elements (a dispatch table
// indexed by the opcode).
func (x *Exec) selArrV(av *ArrV, idx *Term) Value {
	if isC(idx) {
		if idx.Val >= uint64(len(av.E)) {
			unsupported("index %d outside an array of %d non-scalar elements", idx.Val, len(av.E))
		}
		return av.E[idx.Val]
	}
	n := len(av.E)
	if n == 0 || n > 1024 {
		unsupported("symbolic index into an array of %d non-scalar elements", n)
	}
	r := av.E[n-1]
	for k := n - 2; k >= 0; k-- {
		r = x.iteV(x.b.Eq(idx, x.b.Const(idx.S.W, uint64(k))), av.E[k], r)
	}
	return r
}

func (x *Exec) getPath(v Value, p []PE) Value {
	for _, e := range p {
		if av, ok := v.(*ArrV); ok && e.Index != nil {
			v = x.selArrV(av, e.Index)
			continue
		}
		if e.Index != nil {
			a := v.(*Term)
			v = x.sel(a, x.adaptIdx(a, e.Index))
		} else {
			v = v.(*StructV).F[e.Field]
		}
	}
	return v
}

func (x *Exec) setPath(v Value, p []PE, nv Value) Value {
	if len(p) == 0 {
		return nv
	}
	e := p[0]
	if av, ok := v.(*ArrV); ok && e.Index != nil {
		if !isC(e.Index) || e.Index.Val >= uint64(len(av.E)) {
			unsupported("symbolic index into an array of non-scalar elements")
		}
		n := &ArrV{E: append([]Value{}, av.E...)}
		n.E[e.Index.Val] = x.setPath(av.E[e.Index.Val], p[1:], nv)
		return n
	}
	if e.Index != nil {
		if len(p) != 1 {
			unsupported("store into a nested array element")
		}
		a := v.(*Term)
		t, ok := nv.(*Term)
		if !ok {
			unsupported("store of %T into array", nv)
		}
		return x.b.Store(a, x.adaptIdx(a, e.Index), t)
	}
	s := v.(*StructV)
	r := &StructV{F: append([]Value{}, s.F...)}
	r.F[e.Field] = x.setPath(s.F[e.Field], p[1:], nv)
	return r
}

// leaves enumerates the term-valued leaves of a value with their names.
func leavesOf(v Value, t types.Type, prefix string, f func(name string, path []PE, leaf Value, lt types.Type), path []PE) {
	switch u := v.(type) {
	case *StructV:
		st := t.Underlying().(*types.Struct)
		for i := range u.F {
			n := st.Field(i).Name()
			if prefix != "" {
				n = prefix + "." + n
			}
			leavesOf(u.F[i], st.Field(i).Type(), n, f, append(append([]PE{}, path...), PE{Field: i}))
		}
	default:
		f(prefix, path, v, t)
	}
}

// ifaceId: the identity of an opaque interface value as a term.
func (x *Exec) ifaceId(p *IfaceV) *Term {
	if p.AltC != nil {
		return x.b.Ite(p.AltC, x.ifaceId(p.AltA), x.ifaceId(p.AltB))
	}
	if p.IdT != nil {
		return p.IdT
	}
	if p.Opaque == "" {
		return x.b.Const(32, 0)
	}
	if x.opaqueIds == nil {
		x.opaqueIds = map[string]uint64{}
	}
	id, ok := x.opaqueIds[p.Opaque]
	if !ok {
		id = uint64(len(x.opaqueIds) + 1)
		x.opaqueIds[p.Opaque] = id
	}
	return x.b.Const(32, id)
}

// strArr: the bytes of a string as an array term.
func (x *Exec) strArr(s *StrV) *Term {
	b := x.b
	if s.Known {
		a := b.ConstArr(Arr(BV(64), BV(8)), b.Const(8, 0))
		for k := 0; k < len(s.S); k++ {
			a = b.Store(a, b.Const(64, uint64(k)), b.Const(8, uint64(s.S[k])))
		}
		return a
	}
	if t, ok := x.strHeap[s.Obj]; ok {
		return t
	}
	if x.curHeapForStr != nil {
		if t, ok := x.curHeapForStr[s.Obj].(*Term); ok {
			return t
		}
	}
	unsupported("bytes of an unknown string object")
	return nil
}
