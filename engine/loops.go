package main

import (
	"golang.org/x/tools/go/ssa"
)

// Loop support (invariant rule).  See loops_impl for the full rule.

type loopCtx struct {
	x  *Exec
	fn *ssa.Function
	fi *fnInfo
}

func (x *Exec) newLoopCtx(fn *ssa.Function, fi *fnInfo) *loopCtx {
	unsupported("loop in %s (no invariant support yet)", fn.Name())
	return nil
}

func (l *loopCtx) enterHeader(blk *ssa.BasicBlock, pc *Term, cur *State, in []edge, vals map[ssa.Value]Value, get func(ssa.Value) Value) *Term {
	return pc
}

// edge is called for every outgoing edge; returns true if the edge is a back
// edge that was consumed (invariant preservation obligation emitted).
func (l *loopCtx) edge(from *ssa.BasicBlock, succIdx int, cond *Term, st *State) bool {
	return false
}

func (l *loopCtx) next(i *ssa.Next, iter Value, st *State, pc *Term) Value {
	unsupported("range iteration")
	return nil
}

func (x *Exec) rangeStart(i *ssa.Range, v Value) Value {
	unsupported("range")
	return nil
}
