package main

// The loop rule.  A function with a back edge needs, for every loop header (in
// block order: ordinal 0, 1, …), a `//@ loop #k` block in its contract with
// invariants and a modifies frame.  Obligations:
//
//   loop#k/entry      the invariant holds when the loop is first reached
//   loop#k/preserve   it holds again at every back edge, and nothing outside the
//                     loop's modifies set (and the header's phis) has changed
//   (use)             after the header the state is arbitrary except for the
//                     invariant; exits continue from there
//
// Loop variables named in `vars` are header phis, identified by the source
// variable name go/ssa records in the phi's comment.  `range` over a map is
// modelled with a ghost set of visited keys (a loop variable of type
// [N]bool, phi name "visited").

import (
	"fmt"
	"go/ast"
	"go/types"

	"golang.org/x/tools/go/ssa"
)

type loopState struct {
	spec     *LoopSpec
	ordinal  int
	header   *ssa.BasicBlock
	phis     []*ssa.Phi
	mods     []modEntry
	headHeap Heap // havocked state at the header (frame reference)
	iter     *IterV
}

type loopCtx struct {
	x     *Exec
	fn    *ssa.Function
	fi    *fnInfo
	c     *Contract
	args  []Value
	entry Heap // function entry heap (old)
	loops map[*ssa.BasicBlock]*loopState
	vals  map[ssa.Value]Value
	get   func(ssa.Value) Value
}

// IterV is the iterator of a range-over-map loop.
type IterV struct {
	Map     *MapV
	Visited *Term // Array K -> Bool
	id      int
	// range over a string: the byte position of the next rune
	Str *StrV
	Pos *Term
}

func (x *Exec) newLoopCtx(fn *ssa.Function, fi *fnInfo) *loopCtx {
	c := x.ld.contractFor(fn)
	if c == nil || len(c.Loops) == 0 {
		unsupported("loop in %s without a loop contract (invariant)", fnKey(fn))
	}
	l := &loopCtx{x: x, fn: fn, fi: fi, c: c, loops: map[*ssa.BasicBlock]*loopState{}}
	for k, h := range fi.headers {
		sp := c.Loops[k]
		if sp == nil {
			unsupported("loop #%d of %s has no invariant", k, fnKey(fn))
		}
		ls := &loopState{spec: sp, ordinal: k, header: h}
		for _, ins := range h.Instrs {
			if p, ok := ins.(*ssa.Phi); ok {
				ls.phis = append(ls.phis, p)
			}
		}
		l.loops[h] = ls
	}
	return l
}

func (l *loopCtx) loopVars(ls *loopState, phiVal func(p *ssa.Phi) Value) []Value {
	var out []Value
	for i := range ls.spec.Vars {
		want := ls.spec.VarPhi[i]
		var v Value
		if want == "visited" && ls.iter != nil {
			v = ls.iter.Visited
		}
		for _, p := range ls.phis {
			if p.Comment == want {
				v = phiVal(p)
			}
		}
		if v == nil {
			// a local that is not loop-carried: found through the debug references
			for _, blk := range l.fn.Blocks {
				for _, ins := range blk.Instrs {
					if d, ok := ins.(*ssa.DebugRef); ok && !d.IsAddr {
						if id, ok := d.Expr.(*ast.Ident); ok && id.Name == want {
							if _, isPhi := d.X.(*ssa.Phi); !isPhi {
								if val, ok := l.vals[d.X]; ok && v == nil {
									v = val
								}
							}
						}
					}
				}
			}
		}
		if v == nil {
			unsupported("loop #%d of %s: no header phi for variable %q", ls.ordinal, fnKey(l.fn), want)
		}
		out = append(out, v)
	}
	return out
}

func (l *loopCtx) evalInvariants(ls *loopState, st *State, vars []Value) []*Term {
	var out []*Term
	for _, cl := range ls.spec.Invariants {
		if l.x.dropAux && cl.Label == "aux" {
			// an auxiliary invariant (about the loop's temporaries) that no longer
			// holds for the loop as written now: neither assumed nor proved
			out = append(out, l.x.b.True())
			continue
		}
		out = append(out, l.x.evalPred(cl.Fn, l.args, l.entry, st, vars, nil).(*Term))
	}
	return out
}

// enterHeader is called when the header block is reached with the merged
// forward-edge state.  It emits the entry obligation, havocs, assumes.
func (l *loopCtx) enterHeader(blk *ssa.BasicBlock, pc *Term, cur *State, in []edge, vals map[ssa.Value]Value, get func(ssa.Value) Value) *Term {
	x, b := l.x, l.x.b
	ls := l.loops[blk]
	l.vals, l.get = vals, get
	if l.args == nil {
		l.args = x.curArgs[len(x.curArgs)-1]
		l.entry = x.curEntry[len(x.curEntry)-1]
	}
	// phi values from the forward edges
	fwd := map[*ssa.Phi]Value{}
	for _, p := range ls.phis {
		var r Value
		for k := range p.Edges {
			if l.fi.back[blk][k] {
				continue
			}
			e := in[k]
			if e.cond == nil || e.cond.Op == "false" {
				continue
			}
			v := get(p.Edges[k])
			if r == nil {
				r = v
			} else {
				r = x.iteV(e.cond, v, r)
			}
		}
		fwd[p] = r
	}
	// a range iterator created before the loop belongs to it
	for _, w := range ls.spec.VarPhi {
		if w == "visited" && ls.iter == nil && len(x.iters) > 0 {
			ls.iter = x.iters[len(x.iters)-1]
		}
	}
	vars := l.loopVars(ls, func(p *ssa.Phi) Value { return fwd[p] })
	for i, inv := range l.evalInvariants(ls, cur, vars) {
		t := b.Implies(pc, inv)
		if t.Op != "true" {
			x.obligs = append(x.obligs, NamedTerm{fmt.Sprintf("%s/loop#%d/entry#%d", fnKey(l.fn), ls.ordinal, i), t})
		}
	}
	// havoc the frame and the loop-carried phis
	ls.mods = x.resolveMods(ls.spec.Modifies, l.args, cur, vars)
	x.seq++
	x.havoc(ls.mods, cur, fmt.Sprintf("loop%d_%d", ls.ordinal, x.seq))
	for _, p := range ls.phis {
		switch v := fwd[p].(type) {
		case *Term:
			vals[p] = b.Fresh(fmt.Sprintf("loop%d_%s", ls.ordinal, sanitize(p.Comment)), v.S)
		default:
			vals[p] = v
		}
	}
	if ls.iter != nil {
		ls.iter.Visited = b.Fresh(fmt.Sprintf("loop%d_visited", ls.ordinal), ls.iter.Visited.S)
	}
	vars = l.loopVars(ls, func(p *ssa.Phi) Value { return vals[p] })
	for _, inv := range l.evalInvariants(ls, cur, vars) {
		x.assume(b.Implies(pc, inv))
	}
	ls.headHeap = cur.h.clone()
	return pc
}

// edge: called for every outgoing control edge; true if it is a back edge
// (then the preservation obligations are emitted and the edge is consumed).
func (l *loopCtx) edge(from *ssa.BasicBlock, succIdx int, cond *Term, st *State) bool {
	x, b := l.x, l.x.b
	to := from.Succs[succIdx]
	ls := l.loops[to]
	if ls == nil {
		return false
	}
	// which pred slot?
	n := 0
	for k := 0; k < succIdx; k++ {
		if from.Succs[k] == to {
			n++
		}
	}
	slot := -1
	for k, p := range to.Preds {
		if p == from {
			if n == 0 {
				slot = k
				break
			}
			n--
		}
	}
	if slot < 0 || !l.fi.back[to][slot] {
		return false
	}
	if cond.Op == "false" {
		return true
	}
	vars := l.loopVars(ls, func(p *ssa.Phi) Value { return l.get(p.Edges[slot]) })
	for i, inv := range l.evalInvariants(ls, st, vars) {
		t := b.Implies(cond, inv)
		if t.Op != "true" {
			x.obligs = append(x.obligs, NamedTerm{fmt.Sprintf("%s/loop#%d/preserve#%d", fnKey(l.fn), ls.ordinal, i), t})
		}
	}
	for _, g := range x.frameGoals(ls.headHeap, st.h, ls.mods, nil) {
		t := b.Implies(cond, g.T)
		if t.Op != "true" {
			x.obligs = append(x.obligs, NamedTerm{fmt.Sprintf("%s/loop#%d/%s", fnKey(l.fn), ls.ordinal, g.Name), t})
		}
	}
	return true
}

// rangeStart: maps and strings (slices are lowered to index loops by go/ssa).
func (x *Exec) rangeStart(i *ssa.Range, v Value) Value {
	if s, ok := v.(*StrV); ok {
		x.seq++
		return &IterV{Str: s, Pos: x.b.Const(64, 0), id: x.seq}
	}
	m, ok := v.(*MapV)
	if !ok {
		unsupported("range over %T", v)
	}
	ks, _ := mapObjSorts(m.T)
	x.seq++
	it := &IterV{Map: m, Visited: x.b.ConstArr(Arr(ks, BoolS()), x.b.False()), id: x.seq}
	x.iters = append(x.iters, it)
	return it
}

// next models one step of a range-over-map iteration: the runtime picks any
// key that is present now and has not been produced yet.
func (x *Exec) rangeNext(iter Value, st *State, pc *Term) Value {
	b := x.b
	it, ok := iter.(*IterV)
	if !ok {
		unsupported("next on %T", iter)
	}
	if it.Str != nil {
		return x.strNext(it, st, pc)
	}

	m := it.Map
	mt := m.T
	ks, vs := mapObjSorts(mt)
	var present, vals *Term
	if m.Obj == nil {
		present = b.ConstArr(Arr(ks, BoolS()), b.False())
	} else {
		mv := st.h[m.Obj].(*StructV)
		present = mv.F[0].(*Term)
		if mv.F[1] != nil {
			vals = mv.F[1].(*Term)
		}
	}
	nilm := x.mapNil(m)
	k := b.Fresh("rangekey", ks)
	okv := b.Fresh("rangeok", BoolS())
	// the chosen key is a cell of any counterexample (of this map and of every
	// other map of the same key type the model has to fix)
	for _, o := range st.h {
		if mv, ok := o.(*StructV); ok && len(mv.F) == 2 {
			if pt, ok := mv.F[0].(*Term); ok && pt.S.String() == present.S.String() {
				x.noteSelect(pt, k)
			}
		}
	}
	cand := func(key *Term) *Term {
		return b.AndN(b.Not(nilm), b.Select(present, key), b.Not(b.Select(it.Visited, key)))
	}
	// ok  => k is such a key;  !ok => there is none
	x.assume(b.Implies(pc, b.Implies(okv, cand(k))))
	j := b.BoundVar("j", ks)
	x.assume(b.Implies(pc, b.Implies(b.Not(okv), b.Forall([]*Term{j}, b.Not(cand(j))))))
	it.Visited = b.Ite(okv, b.Store(it.Visited, k, b.True()), it.Visited)
	var val Value
	if vs != nil && vals != nil {
		val = b.Select(vals, k)
	} else {
		val = x.zeroV(mt.Elem())
	}
	return &TupleV{E: []Value{okv, k, val}}
}

// strNext: one step of a range-over-string iteration: ok = the position is
// inside the string, key = the byte position, value = the rune decoded there
// exactly as the runtime does (utf8.DecodeRuneInString: an invalid or
// truncated encoding yields U+FFFD and advances by one byte).
func (x *Exec) strNext(it *IterV, st *State, pc *Term) Value {
	b := x.b
	s, pos := it.Str, it.Pos
	okv := b.Cmp("bvslt", pos, s.Len)
	at := func(k uint64) (*Term, *Term) { // byte pos+k (0 outside the string), and whether it is inside
		p := b.Bin("bvadd", pos, b.Const(64, k))
		in := b.Cmp("bvslt", p, s.Len)
		return b.Ite(in, x.strByte(s, p, st), b.Const(8, 0)), in
	}
	b0, _ := at(0)
	b1, in1 := at(1)
	b2, in2 := at(2)
	b3, in3 := at(3)
	c8 := func(v uint64) *Term { return b.Const(8, v) }
	between := func(t *Term, lo, hi uint64) *Term {
		return b.And(b.Cmp("bvule", c8(lo), t), b.Cmp("bvule", t, c8(hi)))
	}
	cont := func(t, in *Term) *Term { return b.And(in, between(t, 0x80, 0xBF)) }
	low := func(t *Term, mask uint64) *Term { return b.ZExt(32, b.Bin("bvand", t, c8(mask))) }
	shl := func(t *Term, n uint64) *Term { return b.Bin("bvshl", t, b.Const(32, n)) }
	or := func(ts ...*Term) *Term {
		r := ts[0]
		for _, t := range ts[1:] {
			r = b.Bin("bvor", r, t)
		}
		return r
	}
	ascii := b.Cmp("bvult", b0, c8(0x80))
	two := b.And(between(b0, 0xC2, 0xDF), cont(b1, in1))
	sec3 := b.Ite(b.Eq(b0, c8(0xE0)), between(b1, 0xA0, 0xBF), b.Ite(b.Eq(b0, c8(0xED)), between(b1, 0x80, 0x9F), between(b1, 0x80, 0xBF)))
	three := b.AndN(between(b0, 0xE0, 0xEF), in1, sec3, cont(b2, in2))
	sec4 := b.Ite(b.Eq(b0, c8(0xF0)), between(b1, 0x90, 0xBF), b.Ite(b.Eq(b0, c8(0xF4)), between(b1, 0x80, 0x8F), between(b1, 0x80, 0xBF)))
	four := b.AndN(between(b0, 0xF0, 0xF4), in1, sec4, cont(b2, in2), cont(b3, in3))
	r := b.Ite(ascii, b.ZExt(32, b0),
		b.Ite(two, or(shl(low(b0, 0x1F), 6), low(b1, 0x3F)),
			b.Ite(three, or(shl(low(b0, 0x0F), 12), shl(low(b1, 0x3F), 6), low(b2, 0x3F)),
				b.Ite(four, or(shl(low(b0, 0x07), 18), shl(low(b1, 0x3F), 12), shl(low(b2, 0x3F), 6), low(b3, 0x3F)),
					b.Const(32, 0xFFFD)))))
	w := b.Ite(ascii, b.Const(64, 1), b.Ite(two, b.Const(64, 2), b.Ite(three, b.Const(64, 3), b.Ite(four, b.Const(64, 4), b.Const(64, 1)))))
	it.Pos = b.Ite(b.And(pc, okv), b.Bin("bvadd", pos, w), pos)
	return &TupleV{E: []Value{okv, pos, r}}
}

var _ = types.Typ
