package main

import (
	"flag"
	"fmt"
	"go/types"
	"os"
	"path/filepath"
	"regexp"
	"sort"
	"strconv"
	"strings"
	"sync"
)

// workRoot: scratch directory of this run for solver input files.
var workRoot = os.TempDir()

func main() {
	prop := flag.String("prop", "", "property id (C01..C19)")
	tier := flag.String("tier", "", "quick | thorough")
	repo := flag.String("repo", "", "repository under verification (default $VERIF_REPO or /repo)")
	verif := flag.String("verif", "", "verification directory (default: parent of the binary's directory)")
	out := flag.String("out", os.Getenv("VERIF_OUT"), "directory for evidence/, replay/ and work/ (default: the verification directory; used by the self-test so that runs on mutated copies do not overwrite evidence)")
	only := flag.String("only", "", "restrict to obligations whose name contains this string (debugging; never used by registered checks)")
	flag.Parse()
	if *repo == "" {
		*repo = os.Getenv("VERIF_REPO")
	}
	if *repo == "" {
		*repo = "/repo"
	}
	if *tier == "" {
		*tier = os.Getenv("VERIF_TIER")
	}
	if *tier == "" {
		*tier = "quick"
	}
	if *verif == "" {
		exe, _ := os.Executable()
		*verif = filepath.Dir(filepath.Dir(exe))
	}
	seed, _ := strconv.ParseInt(os.Getenv("VERIF_SEED"), 10, 64)
	if *prop == "" {
		fmt.Fprintln(os.Stderr, "usage: vcheck -prop Cxx [-tier quick|thorough]")
		os.Exit(2)
	}
	run := newRun(*prop, *tier, *verif, *repo, seed)
	if *out != "" {
		run.Out = *out
	}
	os.RemoveAll(filepath.Join(run.Out, "work", *prop))
	workRoot = filepath.Join(run.Out, "work", *prop)
	ld, err := Load(*repo, *verif, []string{"./..."})
	if err != nil {
		fmt.Println("ENGINE: cannot load the working tree:", err)
		os.Exit(2)
	}
	for _, sc := range ld.staleAtBind {
		msg := fmt.Sprintf("contract of %s dropped: %s", sc.Key, sc.Why)
		run.Stale = append(run.Stale, msg)
		for _, p := range sc.Props {
			if p == *prop && sc.Layer != "H" {
				run.engineErr = append(run.engineErr, msg)
			}
		}
	}
	for _, d := range ld.droppedContracts {
		// "path:line: reason"
		var key, layer string
		var props []string
		if m := regexp.MustCompile(`^(\S*verif_contracts\.go):(\d+): `).FindStringSubmatch(d); m != nil {
			var line int
			fmt.Sscanf(m[2], "%d", &line)
			if cf, err := parseContractFile(m[1]); err == nil {
				for _, c := range cf.Contracts {
					if c.Line == line {
						key, layer, props = c.Key, c.Layer, c.Props
					}
				}
			}
		}
		msg := fmt.Sprintf("contract of %s dropped: its predicates no longer type-check against the working tree (%s)", key, d)
		run.Stale = append(run.Stale, msg)
		owned := false
		for _, p := range props {
			owned = owned || p == *prop
		}
		if layer != "H" && owned {
			run.engineErr = append(run.engineErr, msg)
		}
	}
	run.only = *only
	cmd := fmt.Sprintf("bin/vcheck -prop %s -tier %s", *prop, *tier)
	fn, ok := checks[*prop]
	if !ok {
		fmt.Println("ENGINE: no check for property", *prop)
		os.Exit(2)
	}
	func() {
		defer func() {
			if r := recover(); r != nil {
				if u, ok := asUnsupported(r); ok {
					run.engineErr = append(run.engineErr, "UNSUPPORTED "+u.Msg)
					return
				}
				panic(r)
			}
		}()
		fn(ld, run)
	}()
	os.Exit(run.finish(cmd))
}

var checks = map[string]func(ld *Loaded, r *Run){}

// ------------------------------------------------------------ helper layer

// verifyHelpers discharges the contracts of the helper layer bottom-up over
// the static call graph, so that a contract is only ever used (by a caller's
// proof) after it has been discharged in this very run.
func (r *Run) verifyHelpers(ld *Loaded, filter func(c *Contract) bool) {
	var cs []*Contract
	for _, c := range ld.contracts {
		if c.Special() {
			continue
		}
		if filter == nil && c.Layer != "H" && !ownsProp(c, r.Prop) {
			// a Layer-P contract of another property: only worth discharging here if it
			// is a cheap helper in disguise (Register.U16 …); Run, the memio loops etc.
			// are that other property's business
			n := 0
			for _, b := range c.Fn.Blocks {
				n += len(b.Instrs)
			}
			if len(c.Loops) > 0 || n > 40 || c.Fn.Pkg.Pkg.Path() != modPath {
				continue
			}
		}
		if filter == nil || filter(c) {
			cs = append(cs, c)
		}
	}
	sort.Slice(cs, func(i, j int) bool { return cs[i].Key < cs[j].Key })
	depth := map[*Contract]int{}
	var dep func(c *Contract, seen map[*Contract]bool) int
	dep = func(c *Contract, seen map[*Contract]bool) int {
		if d, ok := depth[c]; ok {
			return d
		}
		if seen[c] {
			return 0
		}
		seen[c] = true
		d := 0
		for _, cc := range ld.contractedCallees(c.Fn) {
			if cc == c {
				continue
			}
			if x := dep(cc, seen) + 1; x > d {
				d = x
			}
		}
		depth[c] = d
		return d
	}
	maxd := 0
	for _, c := range cs {
		if d := dep(c, map[*Contract]bool{}); d > maxd {
			maxd = d
		}
	}
	for lvl := 0; lvl <= maxd; lvl++ {
		var vcs []*VC
		var owners []*Contract
		var mu sync.Mutex
		var wg sync.WaitGroup
		for _, c := range cs {
			if depth[c] != lvl {
				continue
			}
			wg.Add(1)
			go func(c *Contract) {
				defer wg.Done()
				v, err := ld.verifyContract(c, true)
				mu.Lock()
				defer mu.Unlock()
				if err != nil {
					c.Status = "unverified"
					r.Stale = append(r.Stale, c.Key+": "+err.Error())
					if c.Layer != "H" && ownsProp(c, r.Prop) {
						// an obligation of this very property could not be generated:
						// the check is undecided (exit 2), never a pass
						r.engineErr = append(r.engineErr, err.Error())
					}
					return
				}
				for _, vc := range v {
					vcs = append(vcs, vc)
					owners = append(owners, c)
				}
			}(c)
		}
		wg.Wait()
		res := r.discharge(vcs)
		// Loop invariants are proof artefacts, not the property.  A contract with
		// loops that is not discharged is retried (1) without its [aux] invariants
		// (statements about the loop's temporaries, which a harmless rewrite of
		// the loop invalidates) and, if then only maintenance goals of invariants
		// not labelled [property] fail, (2) with the loops unrolled instead: a
		// complete unrolling proves, a bounded one can only refute with a replay.
		{
			byC := map[*Contract][]int{}
			for i, c := range owners {
				byC[c] = append(byC[c], i)
			}
			for c, idx := range byC {
				if len(c.Loops) == 0 {
					continue
				}
				bad := func() (any bool, onlyMaint bool) {
					onlyMaint = true
					for _, i := range idx {
						o := res[i]
						if o.Status == "discharged" {
							continue
						}
						any = true
						if o.Status != "failed" || len(o.Failed) == 0 {
							onlyMaint = false
							continue
						}
						for _, f := range o.Failed {
							if !c.maintenanceGoal(f) {
								onlyMaint = false
							}
						}
					}
					return
				}
				retry := func(mode int, note string) {
					v, err := ld.verifyContract(c, true, mode)
					if err != nil {
						return
					}
					nr := r.discharge(v)
					for _, o := range nr {
						if o.Note == "" {
							o.Note = note
						}
					}
					// replace this contract's results
					var keepV []*VC
					var keepO []*Contract
					var keepR []*OblResult
					for i := range res {
						if owners[i] != c {
							keepV, keepO, keepR = append(keepV, vcs[i]), append(keepO, owners[i]), append(keepR, res[i])
						}
					}
					for i := range nr {
						keepV, keepO, keepR = append(keepV, v[i]), append(keepO, c), append(keepR, nr[i])
					}
					vcs, owners, res = keepV, keepO, keepR
					idx = nil
					for i, cc := range owners {
						if cc == c {
							idx = append(idx, i)
						}
					}
				}
				if any, _ := bad(); any && c.hasAux() {
					retry(1, "auxiliary loop invariants dropped (they no longer hold for the loop as written)")
					if any, _ := bad(); !any {
						r.Stale = append(r.Stale, c.Key+": [aux] loop invariant is stale; verified without it")
					}
				}
				if any, onlyMaint := bad(); any && onlyMaint {
					r.Stale = append(r.Stale, c.Key+": loop invariant not maintained by the loop as written; loops unrolled instead")
					retry(2, "loop contract ignored (invariant not maintained): loops unrolled")
				}
			}
		}
		ok := map[*Contract]bool{}
		for _, c := range owners {
			ok[c] = true
		}
		for i, o := range res {
			o.Layer = owners[i].Layer
			if o.Status != "discharged" {
				ok[owners[i]] = false
			}
		}
		for c, good := range ok {
			if c.Status == "unverified" {
				continue
			}
			c.Discharged = good
			if good {
				c.Status = "discharged"
				r.Funcs[c.Key] = "hand-written contract, discharged"
			} else {
				c.Status = "failed"
			}
		}
		var bad []*OblResult
		for i, o := range res {
			if o.Status != "discharged" && (owners[i].Layer == "H" || !ownsProp(owners[i], r.Prop)) {
				// a helper's own contract failing is not a property violation:
				// its callers are verified against its body instead
				r.Stale = append(r.Stale, fmt.Sprintf("%s: %s %v", o.Name, o.Status, o.Failed))
				continue
			}
			if owners[i].Layer != "H" && !ownsProp(owners[i], r.Prop) {
				continue // a Layer-P contract of another property: not this check's obligation
			}
			r.add(o)
			if o.Status != "discharged" {
				bad = append(bad, o)
			}
		}
		r.reportFailures(ld, bad, nil)
	}
}

// verifyLayerP re-reports the hand-written contracts tagged with prop as this
// property's own obligations (they were discharged by verifyHelpers).
func (r *Run) verifyLayerP(ld *Loaded, prop string) {
	for _, c := range ld.contracts {
		if ownsProp(c, prop) && c.Layer == "H" {
			r.Notes["contract:"+c.Key] = c.Status
		}
	}
}

func ptrTo(t types.Type) types.Type { return types.NewPointer(t) }

func ownsProp(c *Contract, prop string) bool {
	for _, p := range c.Props {
		if p == prop {
			return true
		}
	}
	return false
}

func (c *Contract) Special() bool {
	for _, cl := range c.Ensures {
		if cl.Label == "diff" || cl.Label == "diffalt" {
			return true
		}
	}
	return false
}

// ------------------------------------------------------------ arms

func (r *Run) checkArms(ld *Loaded, encs []Encoding, comps func(e Encoding) map[string]bool, frame, safety bool) {
	var compMask func(string) bool
	if comps != nil {
		compMask = func(n string) bool {
			for _, e := range encs {
				if comps(e)[n] {
					return true
				}
			}
			return false
		}
	}
	if r.only != "" {
		var f []Encoding
		for _, e := range encs {
			if strings.Contains("arm["+e.String()+"]", r.only) {
				f = append(f, e)
			}
		}
		encs = f
	}
	run := func(useContracts bool, encs []Encoding) []*OblResult {
		return r.pipeline(len(encs), func(i int) (*VC, error) {
			return ld.armVC(encs[i], armOpts{useContracts: useContracts, comps: comps, frame: frame, safety: safety, prop: r.Prop})
		})
	}
	res := run(true, encs)
	applied, inlined := 0, 0
	var retry []Encoding
	byEnc := map[string]*OblResult{}
	for _, o := range res {
		applied += o.applied
		inlined += o.inlined
		if o.Status == "discharged" {
			r.add(o)
		} else {
			retry = append(retry, *o.vc.Replay.Enc)
			byEnc[o.vc.Replay.Enc.String()] = o
		}
	}
	r.Notes["contract_applications"] = applied
	r.Notes["inlined_calls"] = inlined
	if len(retry) > 0 && applied > 0 && !r.aborted {
		// call rule 2: re-verify against the callees' bodies
		for _, o := range run(false, retry) {
			if o.Status == "discharged" {
				r.Stale = append(r.Stale, o.Name+": discharged only against callee bodies (a helper contract is weaker than its body)")
			}
			byEnc[o.vc.Replay.Enc.String()] = o
		}
	}
	var keys []string
	for k := range byEnc {
		keys = append(keys, k)
	}
	sort.Strings(keys)
	var bad []*OblResult
	for _, k := range keys {
		o := byEnc[k]
		r.add(o)
		if o.Status == "discharged" {
			continue
		}
		bad = append(bad, o)
	}
	r.reportFailures(ld, bad, compMask)
	// the contract of executeOne may be used by callers (Step) only if every
	// arm, on every component, with frame and safety, was discharged in this run
	if c := ld.contracts["z80.(*CPU).executeOne"]; c != nil && frame && r.only == "" && len(encs) == len(allEncodings()) && len(bad) == 0 && len(r.engineErr) == 0 {
		if comps == nil {
			c.Discharged = true
			c.Status = "discharged"
			r.Funcs[c.Key] = "hand-written contract, discharged by 1786-way opcode split"
		} else {
			// components that were goals of every arm
			names, _ := ld.components()
			c.DischargedBits = map[string]bool{}
			for _, n := range names {
				all := true
				for _, e := range encs {
					if !comps(e)[n] {
						all = false
						break
					}
				}
				if all {
					c.DischargedBits[n] = true
				}
			}
			r.Funcs[c.Key] = fmt.Sprintf("hand-written contract, components %v discharged by 1786-way opcode split", keysOf(c.DischargedBits))
		}
	}
}

func init() {
	checks["C01"] = func(ld *Loaded, r *Run) {
		r.verifyHelpers(ld, nil)
		r.checkArms(ld, allEncodings(), nil, true, true)
		// translator validation: the encoder that generated these VCs against the
		// compiled code, by co-simulation on concrete samples
		n := 256
		if r.Tier == "thorough" {
			n = 3 * 1786
		}
		if r.only == "" {
			r.translatorValidation(ld, n)
		}
	}
}

func keysOf(m map[string]bool) []string {
	var out []string
	for k := range m {
		out = append(out, k)
	}
	sort.Strings(out)
	return out
}
