package main

// Lemmas: Go functions `func vsLemma_<prop>_<name>(args…) bool` in the spec
// package.  The obligation is validity of the result for all arguments.  They
// are statements over spec functions; the code is tied to the same spec
// functions by the contracts, so each lemma is "a lemma over contracts".

import (
	"fmt"
	"go/constant"
	"go/types"
	"sort"
	"strings"
	"sync"

	"golang.org/x/tools/go/ssa"
	"golang.org/x/tools/go/ssa/ssautil"
)

func (ld *Loaded) lemmaFuncs(prop string) []*ssa.Function {
	var out []*ssa.Function
	for _, pkg := range ld.pkgs {
		if !strings.HasPrefix(pkg.Pkg.Path(), modPath) {
			continue
		}
		for name, m := range pkg.Members {
			if fn, ok := m.(*ssa.Function); ok && strings.HasPrefix(name, "vsLemma_"+prop+"_") {
				out = append(out, fn)
			}
		}
	}
	sort.Slice(out, func(i, j int) bool { return out[i].Name() < out[j].Name() })
	return out
}

// lemmaCases: a lemma whose first parameter is `kcase int` is instantiated for
// kcase = 0 .. N-1 where N is the package-level constant <lemma name>_N; each
// instance is its own (small) obligation.
func (ld *Loaded) lemmaCases(fn *ssa.Function) int {
	if len(fn.Params) == 0 || fn.Params[0].Name() != "kcase" {
		return 0
	}
	c, ok := fn.Pkg.Pkg.Scope().Lookup(fn.Name() + "_N").(*types.Const)
	if !ok {
		return 0
	}
	v, _ := constant.Int64Val(c.Val())
	return int(v)
}

func (ld *Loaded) lemmaVC(fn *ssa.Function, kcase int) (vc *VC, err error) {
	defer func() {
		if r := recover(); r != nil {
			if u, ok := asUnsupported(r); ok {
				err = fmt.Errorf("UNSUPPORTED %s (lemma %s)", u.Msg, fn.Name())
				return
			}
			panic(r)
		}
	}()
	x := NewExec(ld)
	x.useContracts = true // real functions called by a lemma are seen through their (discharged) contracts
	st := &State{h: Heap{}}
	x.setupGhost(fn.Pkg, st)
	x.initPackage(fn.Pkg, st)
	var args []Value
	for i, p := range fn.Params {
		name := p.Name()
		if name == "" {
			name = fmt.Sprintf("arg%d", i)
		}
		v := x.symV(p.Type(), name, st.h)
		if pv, ok := v.(*PtrV); ok {
			pv.Nil = nil
		}
		if i == 0 && kcase >= 0 {
			v = x.b.Const(64, uint64(kcase))
		}
		args = append(args, v)
	}
	rv, _ := x.run(fn, args, st, x.b.True())
	q := &Query{Hyps: x.hyps, Goals: []NamedTerm{{"lemma", rv.(*Term)}}}
	q.Goals = append(q.Goals, x.obligs...)
	name := "spec." + fn.Name()
	if kcase >= 0 {
		name += fmt.Sprintf("[%d]", kcase)
	}
	// model values of scalar parameters (for the replay of ground / scalar lemmas)
	for i, a := range args {
		if t, ok := a.(*Term); ok && t.S.K != 'a' {
			q.Values = append(q.Values, NamedTerm{fmt.Sprintf("lemmaarg:%d", i), t})
		}
	}
	return &VC{Name: name, Layer: "P", Query: q, B: x.b, Exec: x, Replay: &ReplaySpec{Kind: "lemma", Note: fn.Name(), Lemma: fn, Kcase: kcase}}, nil
}

func (r *Run) checkLemmas(ld *Loaded, prop string) {
	fns := ld.lemmaFuncs(prop)
	var vcs []*VC
	var mu sync.Mutex
	var wg sync.WaitGroup
	for _, fn := range fns {
		if r.only != "" && !strings.Contains(fn.Name(), r.only) {
			continue
		}
		n := ld.lemmaCases(fn)
		if r.Tier != "thorough" {
			if c, ok := fn.Pkg.Pkg.Scope().Lookup(fn.Name() + "_QuickN").(*types.Const); ok {
				v, _ := constant.Int64Val(c.Val())
				if int(v) < n {
					r.Notes["quick_tier_subset:"+fn.Name()] = fmt.Sprintf("%d of %d cases (all in the thorough tier)", v, n)
					n = int(v)
				}
			}
		}
		ks := []int{-1}
		if n > 0 {
			ks = ks[:0]
			for k := 0; k < n; k++ {
				ks = append(ks, k)
			}
		}
		for _, k := range ks {
			wg.Add(1)
			go func(fn *ssa.Function, k int) {
				defer wg.Done()
				vc, err := ld.lemmaVC(fn, k)
				mu.Lock()
				defer mu.Unlock()
				if err != nil {
					r.engineErr = append(r.engineErr, err.Error())
					return
				}
				vcs = append(vcs, vc)
			}(fn, k)
		}
	}
	wg.Wait()
	sort.Slice(vcs, func(i, j int) bool { return vcs[i].Name < vcs[j].Name })
	res := r.discharge(vcs)
	var bad []*OblResult
	for _, o := range res {
		r.add(o)
		if o.Status != "discharged" {
			bad = append(bad, o)
		}
	}
	r.reportFailures(ld, bad, nil)
}

// checkStdlibModel: the engine represents math/bits.OnesCount8/16 by a
// population-count term; this obligation proves that model equal to the real
// function (its source executed symbolically: a table lookup) for all inputs.
func (r *Run) checkStdlibModel(ld *Loaded, name string, width int) {
	var fn *ssa.Function
	for f := range ssautil.AllFunctions(ld.prog) {
		if f.Pkg != nil && fullName(f) == name {
			fn = f
		}
	}
	o := &OblResult{Name: "model[" + name + "]", Layer: "P"}
	if fn == nil || fn.Blocks == nil {
		o.Status, o.Note = "undecided", "source of "+name+" not available"
		r.add(o)
		r.Undecided = append(r.Undecided, o.Note)
		return
	}
	var vc *VC
	func() {
		defer func() {
			if rec := recover(); rec != nil {
				if u, ok := rec.(Unsupported); ok {
					r.engineErr = append(r.engineErr, "UNSUPPORTED "+u.Msg+" (model of "+name+")")
					return
				}
				panic(rec)
			}
		}()
		x := NewExec(ld)
		b := x.b
		st := &State{h: Heap{}}
		arg := b.Var("x", BV(width))
		model, _ := x.stub(fn, []Value{arg}, st, b.True())
		x.realStdlib = map[string]bool{name: true}
		x.inInit = true // the function may read package-level constants of its own package
		real, _ := x.stub(fn, []Value{arg}, st, b.True())
		x.inInit = false
		q := &Query{Hyps: x.hyps, Goals: []NamedTerm{{"model-equals-real-body", b.Eq(model.(*Term), real.(*Term))}}}
		q.Goals = append(q.Goals, x.obligs...)
		vc = &VC{Name: o.Name, Layer: "P", Query: q, B: b, Exec: x, Replay: &ReplaySpec{Kind: "none"}}
	}()
	if vc == nil {
		return
	}
	res := r.discharge([]*VC{vc})
	r.add(res...)
	var bad []*OblResult
	for _, x := range res {
		if x.Status != "discharged" {
			bad = append(bad, x)
		}
	}
	r.reportFailures(ld, bad, nil)
}
