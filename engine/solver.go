package main

import (
	"bytes"
	"context"
	"fmt"
	"os"
	"os/exec"
	"path/filepath"
	"regexp"
	"strconv"
	"strings"
	"sync"
	"time"
)

type SolveResult struct {
	Status  string // "unsat", "sat", "unknown", "timeout", "error"
	Backend string
	Ms      int64
	Raw     string
	Model   map[string]uint64 // scalar unknowns and requested values (bools as 0/1)
	Failed  []string          // names of goal conjuncts that are false in the model
	File    string
	Others  map[string]string // answers of other back ends (cross-check)
}

var solverSem = make(chan struct{}, 16)

var (
	statMu        sync.Mutex
	solverSeconds float64
	byBackend     = map[string]int{}
)

type backend struct {
	name string
	args func(file string, sec int, quant bool) []string
}

var backends = []backend{
	{"z3-new", func(f string, sec int, q bool) []string { return []string{"z3-new", fmt.Sprintf("-T:%d", sec), f} }},
	{"cvc5", func(f string, sec int, q bool) []string {
		a := []string{"cvc5", "--produce-models", fmt.Sprintf("--tlimit=%d", sec*1000)}
		if q {
			a = append(a, "--full-saturate-quant")
		}
		return append(a, f)
	}},
	{"z3", func(f string, sec int, q bool) []string { return []string{"z3", fmt.Sprintf("-T:%d", sec), f} }},
}

func runBackend(be backend, file string, sec int, quant bool) (status, raw string, ms int64) {
	solverSem <- struct{}{}
	defer func() { <-solverSem }()
	a := be.args(file, sec, quant)
	ctx, cancel := context.WithTimeout(context.Background(), time.Duration(sec+5)*time.Second)
	defer cancel()
	t0 := time.Now()
	cmd := exec.CommandContext(ctx, a[0], a[1:]...)
	var out bytes.Buffer
	cmd.Stdout = &out
	cmd.Stderr = &out
	_ = cmd.Run()
	ms = time.Since(t0).Milliseconds()
	raw = out.String()
	first := strings.TrimSpace(strings.SplitN(raw, "\n", 2)[0])
	switch first {
	case "sat", "unsat", "unknown", "timeout":
		status = first
	default:
		if ctx.Err() != nil {
			status = "timeout"
		} else {
			status = "error"
		}
	}
	statMu.Lock()
	solverSeconds += float64(ms) / 1000
	statMu.Unlock()
	return
}

var valLine = regexp.MustCompile(`\s(#x[0-9a-fA-F]+|#b[01]+|true|false|\(_ bv(\d+) \d+\))\)\)\s*$`)

func parseVal(s string) (uint64, bool) {
	switch {
	case s == "true":
		return 1, true
	case s == "false":
		return 0, true
	case strings.HasPrefix(s, "#x"):
		v, err := strconv.ParseUint(s[2:], 16, 64)
		return v, err == nil
	case strings.HasPrefix(s, "#b"):
		v, err := strconv.ParseUint(s[2:], 2, 64)
		return v, err == nil
	case strings.HasPrefix(s, "(_ bv"):
		f := strings.Fields(s[5:])
		v, err := strconv.ParseUint(f[0], 10, 64)
		return v, err == nil
	}
	return 0, false
}

// Solve discharges one query.  tier "thorough" additionally asks a second
// back end and records disagreement as an error.
func Solve(b *B, q *Query, file string, timeoutSec int, crossCheck bool) *SolveResult {
	smt, vals := q.Emit(b, false)
	var sb strings.Builder
	sb.WriteString(smt)
	for _, v := range vals {
		fmt.Fprintf(&sb, "(get-value (%s))\n", v.Expr)
	}
	os.MkdirAll(filepath.Dir(file), 0o755)
	if err := os.WriteFile(file, []byte(sb.String()), 0o644); err != nil {
		return &SolveResult{Status: "error", Raw: err.Error(), File: file}
	}
	quant := strings.Contains(smt, "(forall ")
	res := &SolveResult{File: file, Others: map[string]string{}}
	st, raw, ms := runBackend(backends[0], file, timeoutSec, quant)
	res.Status, res.Raw, res.Ms, res.Backend = st, raw, ms, backends[0].name
	if st != "sat" && st != "unsat" {
		// race the other two
		type ans struct {
			be      string
			st, raw string
			ms      int64
		}
		ch := make(chan ans, 2)
		for _, be := range backends[1:] {
			go func(be backend) {
				s, r, m := runBackend(be, file, timeoutSec, quant)
				ch <- ans{be.name, s, r, m}
			}(be)
		}
		for i := 0; i < 2; i++ {
			a := <-ch
			res.Others[a.be] = a.st
			if (a.st == "sat" || a.st == "unsat") && res.Status != "sat" && res.Status != "unsat" {
				res.Status, res.Raw, res.Ms, res.Backend = a.st, a.raw, a.ms, a.be
			}
		}
	} else if crossCheck {
		s2, _, _ := runBackend(backends[1], file, timeoutSec, quant)
		res.Others["cvc5"] = s2
		if s2 != "sat" && s2 != "unsat" {
			s3, _, _ := runBackend(backends[2], file, timeoutSec, quant)
			res.Others["z3"] = s3
			s2 = s3
		}
		if (s2 == "sat" || s2 == "unsat") && s2 != st {
			res.Status = "error"
			res.Raw = fmt.Sprintf("SOLVER DISAGREEMENT: %s says %s, other says %s\n%s", res.Backend, st, s2, raw)
		}
	}
	if res.Status == "unsat" {
		statMu.Lock()
		byBackend[res.Backend]++
		statMu.Unlock()
	}
	if res.Status == "sat" && len(q.Prefer) > 0 {
		// look for a model that the replay harness can build (small slices …)
		q2 := &Query{Hyps: append(append([]*Term{}, q.Hyps...), q.Prefer...), Goals: q.Goals, Values: q.Values}
		smt2, vals2 := q2.Emit(b, false)
		var sb2 strings.Builder
		sb2.WriteString(smt2)
		for _, v := range vals2 {
			fmt.Fprintf(&sb2, "(get-value (%s))\n", v.Expr)
		}
		f2 := strings.TrimSuffix(file, ".smt2") + ".small.smt2"
		if os.WriteFile(f2, []byte(sb2.String()), 0o644) == nil {
			st2, raw2, _ := runBackend(backends[0], f2, timeoutSec, quant)
			if st2 == "sat" {
				res.Raw, vals = raw2, vals2
			}
		}
	}
	if res.Status == "sat" {
		res.Model = map[string]uint64{}
		lines := strings.Split(res.Raw, "\n")
		k := 0
		for _, ln := range lines[1:] {
			if k >= len(vals) {
				break
			}
			ln = strings.TrimRight(ln, " \r")
			if strings.HasPrefix(ln, "(error") {
				k++ // this request produced no value
				continue
			}
			if !strings.HasPrefix(ln, "((") {
				continue
			}
			m := valLine.FindStringSubmatch(ln)
			if m != nil {
				if v, ok := parseVal(m[1]); ok {
					vr := vals[k]
					switch vr.Kind {
					case 'g':
						if v == 0 {
							res.Failed = append(res.Failed, vr.Label)
						}
					default:
						res.Model[vr.Label] = v
					}
				}
			}
			k++
		}
	}
	return res
}

// Cover asks whether hyps ∧ goals is satisfiable (reachability / vacuity).
func Cover(b *B, q *Query, file string, timeoutSec int) string {
	smt, _ := q.Emit(b, true)
	os.MkdirAll(filepath.Dir(file), 0o755)
	os.WriteFile(file, []byte(smt), 0o644)
	st, _, _ := runBackend(backends[0], file, timeoutSec, false)
	if st != "sat" && st != "unsat" {
		st, _, _ = runBackend(backends[1], file, timeoutSec, false)
	}
	return st
}
