package main

import (
	"fmt"
	"go/types"
	"os"
	"path/filepath"
	"sort"
	"strings"
	"sync"

	"golang.org/x/tools/go/packages"
	"golang.org/x/tools/go/ssa"
	"golang.org/x/tools/go/ssa/ssautil"
)

const modPath = "github.com/koron-go/z80"

type Loaded struct {
	repo  string
	verif string
	prog  *ssa.Program
	pkgs  map[string]*ssa.Package // by import path
	ppkgs map[string]*packages.Package

	fi          map[*ssa.Function]*fnInfo
	fiMu        sync.Mutex
	logOnlyMemo map[*ssa.Function]bool

	ghostT     map[string]types.Type // per package path
	ghostField map[string]int        // z80 ghost fields

	contracts map[string]*Contract // by fnKey
	cfiles    []*ContractFile

	storedGlobals map[*ssa.Global]bool // stored to outside package initialisation
	genFiles      map[string]string    // generated overlay files (path -> content) for replay

	aliasMu sync.Mutex

	knownFields map[string]map[string]bool // "pkg.Type" -> modelled fields
}

// unmodelled reports whether the location (object of named struct type, path)
// lies in a field of that struct the contracts do not know.
func (ld *Loaded) unmodelled(o *Object, path []PE) bool {
	if o == nil || o.T == nil || len(path) == 0 || path[0].Index != nil {
		return false
	}
	nt, ok := o.T.(*types.Named)
	if !ok {
		return false
	}
	st, ok := nt.Underlying().(*types.Struct)
	if !ok {
		return false
	}
	kf, ok := ld.knownFields[nt.Obj().Pkg().Name()+"."+nt.Obj().Name()]
	if !ok {
		return false
	}
	return !kf[st.Field(path[0].Field).Name()]
}

// pkgDirs maps package import paths to the spec directory names under /verif/spec.
var specDirs = map[string]string{
	modPath:                       "z80",
	modPath + "/internal/tinycpm": "tinycpm",
	modPath + "/internal/zex":     "zex",
	modPath + "/cmd/cim2bin":      "cim2bin",
	modPath + "/cmd/cim2cas":      "cim2cas",
}

func relDir(path string) string {
	if path == modPath {
		return "."
	}
	return strings.TrimPrefix(path, modPath+"/")
}

// Load type-checks and SSA-builds the repository's current working tree with
// the build tag `verif`, adding (never replacing) the spec files of
// /verif/spec/<pkg> and the generated contract predicates by overlay.
func Load(repo, verif string, patterns []string) (*Loaded, error) {
	ld := &Loaded{repo: repo, verif: verif, fi: map[*ssa.Function]*fnInfo{}, logOnlyMemo: map[*ssa.Function]bool{},
		contracts: map[string]*Contract{}, pkgs: map[string]*ssa.Package{}, ppkgs: map[string]*packages.Package{},
		ghostT: map[string]types.Type{}, ghostField: map[string]int{}, genFiles: map[string]string{}, knownFields: map[string]map[string]bool{}}
	overlay := map[string][]byte{}
	for path, sd := range specDirs {
		dir := filepath.Join(repo, relDir(path))
		files, _ := filepath.Glob(filepath.Join(verif, "spec", sd, "*.go"))
		sort.Strings(files)
		for _, f := range files {
			data, err := os.ReadFile(f)
			if err != nil {
				return nil, err
			}
			dst := filepath.Join(dir, "zz_verif_spec_"+filepath.Base(f))
			if _, err := os.Stat(dst); err == nil {
				return nil, fmt.Errorf("overlay target exists in the repository: %s", dst)
			}
			ld.genFiles[dst] = f
			if strings.HasSuffix(f, "_replayonly.go") {
				continue // concrete-execution support, not part of any proof
			}
			overlay[dst] = data
		}
		cpath := filepath.Join(dir, "verif_contracts.go")
		if _, err := os.Stat(cpath); err == nil {
			cf, err := parseContractFile(cpath)
			if err != nil {
				return nil, err
			}
			src, err := cf.generate(true)
			if err != nil {
				return nil, err
			}
			dst := filepath.Join(dir, "zz_verif_contracts_gen.go")
			overlay[dst] = []byte(src)
			gen := filepath.Join(verif, "work", "gen", sd+"_contracts_gen.go")
			os.MkdirAll(filepath.Dir(gen), 0o755)
			os.WriteFile(gen, []byte(src), 0o644)
			ld.genFiles[dst] = gen
			ld.cfiles = append(ld.cfiles, cf)
			for tn, fs := range cf.Fields {
				ld.knownFields[filepath.Base(path)+"."+tn] = fs
				if cf.PkgName != "" {
					ld.knownFields[cf.PkgName+"."+tn] = fs
				}
			}
			for _, c := range cf.Contracts {
				pkgName := filepath.Base(path)
				if cf.PkgName != "" {
					pkgName = cf.PkgName
				}
				c.Key = pkgName + "." + c.Key
				if _, dup := ld.contracts[c.Key]; dup {
					return nil, fmt.Errorf("%s:%d: duplicate contract for %s", cpath, c.Line, c.Key)
				}
				ld.contracts[c.Key] = c
			}
		}
	}
	cfg := &packages.Config{Mode: packages.LoadAllSyntax, Dir: repo, Overlay: overlay, BuildFlags: []string{"-tags=verif"},
		Env: append(os.Environ(), "GOFLAGS=-mod=mod", "GOPROXY=off", "GOSUMDB=off", "GOTOOLCHAIN=local")}
	pkgs, err := packages.Load(cfg, patterns...)
	if err != nil {
		return nil, err
	}
	var errs []string
	packages.Visit(pkgs, nil, func(p *packages.Package) {
		for _, e := range p.Errors {
			errs = append(errs, e.Error())
		}
	})
	if len(errs) > 0 {
		return nil, fmt.Errorf("load errors:\n  %s", strings.Join(errs, "\n  "))
	}
	prog, spkgs := ssautil.AllPackages(pkgs, ssa.GlobalDebug)
	prog.Build()
	ld.prog = prog
	for i, p := range pkgs {
		if spkgs[i] != nil {
			ld.pkgs[p.PkgPath] = spkgs[i]
			ld.ppkgs[p.PkgPath] = p
		}
	}
	for path, sp := range ld.pkgs {
		if m := sp.Members["VGhost"]; m != nil {
			ld.ghostT[path] = m.Type()
		}
	}
	if gt, ok := ld.ghostT[modPath]; ok {
		st := gt.Underlying().(*types.Struct)
		for i := 0; i < st.NumFields(); i++ {
			ld.ghostField[st.Field(i).Name()] = i
		}
	}
	// bind contracts to functions and predicates
	for _, c := range ld.contracts {
		if err := ld.bind(c); err != nil {
			return nil, err
		}
	}
	ld.scanGlobals()
	return ld, nil
}

func (ld *Loaded) pkgByName(name string) *ssa.Package {
	for _, p := range ld.pkgs {
		if p.Pkg.Name() == name && strings.HasPrefix(p.Pkg.Path(), modPath) {
			return p
		}
	}
	return nil
}

func (ld *Loaded) allFunctions() []*ssa.Function {
	var out []*ssa.Function
	for fn := range ssautil.AllFunctions(ld.prog) {
		if fn.Pkg != nil && strings.HasPrefix(fn.Pkg.Pkg.Path(), modPath) {
			out = append(out, fn)
		}
	}
	sort.Slice(out, func(i, j int) bool { return fnKey(out[i]) < fnKey(out[j]) })
	return out
}

func (ld *Loaded) funcByKey(key string) *ssa.Function {
	for _, fn := range ld.allFunctions() {
		if fnKey(fn) == key {
			return fn
		}
	}
	return nil
}

func (ld *Loaded) bind(c *Contract) error {
	fn := ld.funcByKey(c.Key)
	if fn == nil {
		return fmt.Errorf("%s:%d: contract for %s: no such function in the current tree", c.PkgDir, c.Line, c.Key)
	}
	c.Fn = fn
	// signature check: number of params/results
	np := len(fn.Params)
	if np != len(c.Params) {
		return fmt.Errorf("contract for %s: header has %d parameters, function has %d", c.Key, len(c.Params), np)
	}
	if fn.Signature.Results().Len() != len(c.Results) {
		return fmt.Errorf("contract for %s: header has %d results, function has %d", c.Key, len(c.Results), fn.Signature.Results().Len())
	}
	pkg := fn.Pkg
	look := func(cl *Clause) error {
		f := pkg.Func(cl.FnName)
		if f == nil {
			return fmt.Errorf("generated predicate %s missing", cl.FnName)
		}
		cl.Fn = f
		return nil
	}
	var all []*Clause
	all = append(all, c.Requires...)
	all = append(all, c.Ensures...)
	all = append(all, c.Modifies...)
	for _, lp := range c.Loops {
		all = append(all, lp.Invariants...)
		all = append(all, lp.Modifies...)
	}
	for _, cl := range all {
		if err := look(cl); err != nil {
			return err
		}
	}
	// parameter types must agree with the real signature
	for i, p := range fn.Params {
		want := types.TypeString(p.Type(), func(pk *types.Package) string {
			if pk == fn.Pkg.Pkg {
				return ""
			}
			return pk.Name()
		})
		got := strings.ReplaceAll(c.Params[i].Type, " ", "")
		if strings.ReplaceAll(want, " ", "") != got {
			return fmt.Errorf("contract for %s: parameter %s has type %s in the header, %s in the code", c.Key, c.Params[i].Name, c.Params[i].Type, want)
		}
	}
	return nil
}

// contractedCallees: contracts reachable from fn through functions without a contract.
func (ld *Loaded) contractedCallees(fn *ssa.Function) []*Contract {
	seen := map[*ssa.Function]bool{}
	var out []*Contract
	has := map[*Contract]bool{}
	var walk func(f *ssa.Function)
	walk = func(f *ssa.Function) {
		if seen[f] {
			return
		}
		seen[f] = true
		for _, blk := range f.Blocks {
			for _, ins := range blk.Instrs {
				var cc *ssa.CallCommon
				switch i := ins.(type) {
				case *ssa.Call:
					cc = &i.Call
				case *ssa.Defer:
					cc = &i.Call
				case *ssa.Go:
					cc = &i.Call
				}
				if cc == nil {
					continue
				}
				c := cc.StaticCallee()
				if c == nil || c.Pkg == nil || !strings.HasPrefix(c.Pkg.Pkg.Path(), modPath) {
					continue
				}
				if k := ld.contractFor(c); k != nil {
					if !has[k] {
						has[k] = true
						out = append(out, k)
					}
					continue
				}
				walk(c)
			}
		}
	}
	walk(fn)
	return out
}

func (ld *Loaded) contractFor(fn *ssa.Function) *Contract {
	if fn.Pkg == nil {
		return nil
	}
	return ld.contracts[fnKey(fn)]
}

// scanGlobals finds package-level variables stored to (or whose address
// escapes) outside package initialisation.
func (ld *Loaded) scanGlobals() {
	ld.storedGlobals = map[*ssa.Global]bool{}
	rootGlobal := func(v ssa.Value) *ssa.Global {
		for {
			switch a := v.(type) {
			case *ssa.Global:
				return a
			case *ssa.FieldAddr:
				v = a.X
			case *ssa.IndexAddr:
				v = a.X
			default:
				return nil
			}
		}
	}
	for _, fn := range ld.allFunctions() {
		if fn.Name() == "init" && fn.Synthetic != "" {
			continue
		}
		if strings.HasPrefix(fn.Name(), "vc_") || strings.HasPrefix(fn.Name(), "vs") {
			continue
		}
		for _, blk := range fn.Blocks {
			for _, ins := range blk.Instrs {
				switch i := ins.(type) {
				case *ssa.Store:
					if g := rootGlobal(i.Addr); g != nil {
						ld.storedGlobals[g] = true
					}
					if g, ok := i.Val.(*ssa.Global); ok {
						ld.storedGlobals[g] = true // address escapes
					}
				case *ssa.Call:
					for _, a := range i.Call.Args {
						if g := rootGlobal(a); g != nil {
							ld.storedGlobals[g] = true // address passed to a call (flag.StringVar(&cim,…))
						}
					}
				}
			}
		}
	}
}
