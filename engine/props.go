package main

import (
	"fmt"
	"go/constant"
	"go/types"
	"path/filepath"
	"strings"
)

// Which obligations and which components belong to which property
// (DESIGN.md Appendix B: a property owns name patterns × components).

func set(names ...string) map[string]bool {
	m := map[string]bool{}
	for _, n := range names {
		m[n] = true
	}
	return m
}

var regComps = []string{"A", "F", "B", "C", "D", "E", "H", "L", "A2", "F2", "B2", "C2", "D2", "E2", "H2", "L2", "IX", "IY", "SP", "PC", "I", "R", "IFF1", "IFF2", "IM", "HALT"}
var busComps = []string{"Rd", "Wr", "PIn", "POut"}

func allComps() map[string]bool {
	m := set(regComps...)
	for _, n := range busComps {
		m[n] = true
	}
	m["Mem"], m["Retn"], m["Reti"] = true, true, true
	return m
}

// xyz decomposition of an opcode byte.
func xyz(op uint8) (x, y, z, p, q int) {
	x, y, z = int(op>>6), int(op>>3&7), int(op&7)
	return x, y, z, y >> 1, y & 1
}

func isMainTable(e Encoding) bool { return e.Table == "" || e.Table == "DD" || e.Table == "FD" }

// famALU8: 8-bit ALU, rotate/shift, bit instructions (C02).
func famALU8(e Encoding) bool {
	x, _, z, _, _ := xyz(e.Op)
	switch e.Table {
	case "CB", "DDCB", "FDCB":
		return true
	case "ED":
		return e.Op == 0x44 || e.Op == 0x67 || e.Op == 0x6f
	}
	switch {
	case x == 2: // ALU A,r
		return true
	case x == 0 && (z == 4 || z == 5): // INC/DEC r
		return true
	case x == 3 && z == 6: // ALU A,n
		return true
	case x == 0 && z == 7: // RLCA … CCF
		return true
	}
	return false
}

// famArith16: ADD HL/IX/IY,ss  ADC/SBC HL,ss  INC/DEC ss (C03).
func famArith16(e Encoding) bool {
	x, _, z, _, q := xyz(e.Op)
	switch e.Table {
	case "ED":
		return x == 1 && z == 2
	case "", "DD", "FD":
		return x == 0 && (z == 1 && q == 1 || z == 3)
	}
	return false
}

// famControl: jumps, calls, returns, RST, DJNZ, PUSH/POP, JP (HL) (C04).
func famControl(e Encoding) bool {
	x, y, z, p, q := xyz(e.Op)
	switch e.Table {
	case "ED":
		return e.Op == 0x45 || e.Op == 0x4d
	case "", "DD", "FD":
		switch {
		case x == 0 && z == 0 && y >= 2:
			return true
		case x == 3 && (z == 0 || z == 2 || z == 4 || z == 7):
			return true
		case x == 3 && z == 1 && (q == 0 || p == 0 || p == 2):
			return true
		case x == 3 && z == 3 && y == 0:
			return true
		case x == 3 && z == 5:
			return true
		}
	}
	return false
}

func famBlock(e Encoding) bool {
	x, y, z, _, _ := xyz(e.Op)
	return e.Table == "ED" && x == 2 && z <= 3 && y >= 4
}

func famIO(e Encoding) bool {
	x, y, z, _, _ := xyz(e.Op)
	switch e.Table {
	case "ED":
		return x == 1 && (z == 0 || z == 1) || x == 2 && (z == 2 || z == 3) && y >= 4
	case "", "DD", "FD":
		return e.Op == 0xd3 || e.Op == 0xdb
	}
	return false
}

func filterEnc(f func(Encoding) bool) []Encoding {
	var out []Encoding
	for _, e := range allEncodings() {
		if f(e) {
			out = append(out, e)
		}
	}
	return out
}

func propFilter(prop string) func(c *Contract) bool {
	return func(c *Contract) bool {
		for _, p := range c.Props {
			if p == prop {
				return true
			}
		}
		return false
	}
}

func init() {
	// C02: helper contracts against textbook ALU definitions + the arms of the
	// families on the components an ALU instruction can touch.
	checks["C02"] = func(ld *Loaded, r *Run) {
		r.verifyHelpers(ld, nil)
		r.checkStdlibModel(ld, "math/bits.OnesCount8", 8)
		comps := set("A", "F", "B", "C", "D", "E", "H", "L", "IX", "IY", "Mem")
		r.checkArms(ld, filterEnc(famALU8), func(Encoding) map[string]bool { return comps }, false, false)
	}
	checks["C03"] = func(ld *Loaded, r *Run) {
		r.verifyHelpers(ld, nil)
		comps := set("F", "B", "C", "D", "E", "H", "L", "IX", "IY", "SP", "A")
		r.checkArms(ld, filterEnc(famArith16), func(Encoding) map[string]bool { return comps }, false, false)
	}
	checks["C04"] = func(ld *Loaded, r *Run) {
		r.verifyHelpers(ld, nil)
		comps := allComps()
		delete(comps, "R")
		delete(comps, "I")
		r.checkArms(ld, filterEnc(famControl), func(Encoding) map[string]bool { return comps }, false, false)
		r.checkLemmas(ld, "C04")
	}
	checks["C05"] = func(ld *Loaded, r *Run) {
		r.verifyHelpers(ld, nil)
		bus := set(busComps...)
		io := allComps()
		r.checkArms(ld, allEncodings(), func(e Encoding) map[string]bool {
			if famIO(e) {
				return io // "the value returned by the device is the value loaded or stored"
			}
			return bus
		}, true, false)
		// "during one Step": the Step around executeOne adds no access of its own
		// (no request / refused request), and acceptance makes exactly its stack and
		// vector accesses
		var cs []stepCase
		for _, sc := range stepCases(false) {
			if sc.name != "other" && sc.name != "IM0/empty" {
				cs = append(cs, sc)
			}
		}
		r.checkFn(ld, "z80.(*CPU).Step", cs, bus, false, false, "cpu.Step()")
	}
	checks["C09"] = func(ld *Loaded, r *Run) {
		r.verifyHelpers(ld, nil)
		comps := allComps()
		r.checkArms(ld, filterEnc(famBlock), func(Encoding) map[string]bool { return comps }, true, false)
		// "each Step performs exactly one element": the Step around executeOne
		// adds nothing and skips nothing when no request is accepted (no request,
		// or a maskable one while interrupts are disabled), whatever else the CPU
		// value holds
		var cs []stepCase
		for _, e := range filterEnc(famBlock) {
			e := e
			cs = append(cs, stepCase{name: "noint[" + e.String() + "]", spec: func(x *Exec, st *State, a []Value) {
				x.setCPU(st, a[0].(*PtrV), &PtrV{}, "Interrupt")
				x.specialise(st, a[0].(*PtrV), e)
			}})
			cs = append(cs, stepCase{name: "refused[" + e.String() + "]", spec: func(x *Exec, st *State, a []Value) {
				cpu := a[0].(*PtrV)
				x.pinInterrupt(st, cpu, 1)
				x.setCPU(st, cpu, x.b.False(), "IFF1")
				x.specialise(st, cpu, e)
			}})
		}
		r.checkFn(ld, "z80.(*CPU).Step", cs, comps, true, false, "cpu.Step()")
		r.checkLemmas(ld, "C09")
	}
	checks["C16"] = func(ld *Loaded, r *Run) {
		r.verifyHelpers(ld, propFilter("C16"))
		r.checkLemmas(ld, "C16")
	}
	checks["C14"] = func(ld *Loaded, r *Run) {
		r.verifyHelpers(ld, nil)
		ir := set("I", "R")
		ldair := set("I", "R", "A", "F")
		r.checkArms(ld, allEncodings(), func(e Encoding) map[string]bool {
			if e.Table == "ED" && (e.Op == 0x57 || e.Op == 0x5f || e.Op == 0x47 || e.Op == 0x4f) {
				return ldair
			}
			return ir
		}, true, false)
		// every Step that executes an instruction (no request, or a refused one;
		// halted or not) advances R exactly as that instruction does, and an
		// accepted request leaves I and R alone
		var cs []stepCase
		for _, sc := range stepCases(false) {
			if sc.name != "other" && sc.name != "IM0/empty" {
				cs = append(cs, sc)
			}
		}
		r.checkFn(ld, "z80.(*CPU).Step", cs, ir, false, false, "cpu.Step()")
	}
}

func init() {
	checks["C15"] = func(ld *Loaded, r *Run) {
		r.verifyHelpers(ld, propFilter("C15"))
		r.Assumptions["C15: reflect.DeepEqual on two map[uint16]uint8 values = both nil or both non-nil with the same keys and values (stub)"] = true
		r.Assumptions["C15: distinct slice arguments do not alias (Put's data and the store)"] = true
	}
}

func init() {
	checks["C17"] = func(ld *Loaded, r *Run) {
		if ld.cimErr != "" {
			r.engineErr = append(r.engineErr, "cannot read the exerciser images: "+ld.cimErr)
			return
		}
		// the images are the canonical ones (pinned digests)
		sc := ld.pkgs[modPath+"/internal/zex"].Pkg.Scope()
		for _, n := range []string{"Zexdoc", "Zexall"} {
			want := ""
			if c, ok := sc.Lookup("vsDigest" + n).(*types.Const); ok {
				want = constant.StringVal(c.Val())
			}
			got := fileDigest(filepath.Join(ld.repo, "cmd", "zexdoc", strings.ToLower(n)+".cim"))
			o := &OblResult{Name: "zex.image[" + strings.ToLower(n) + ".cim]/sha256", Layer: "P", Backend: "sha256"}
			if got == want && want != "" {
				o.Status = "discharged"
				r.add(o)
			} else {
				o.Status, o.Note = "failed", fmt.Sprintf("cmd/zexdoc/%s.cim has SHA-256 %s, the canonical image pinned in /verif/spec/zex has %s", strings.ToLower(n), got, want)
				o.res = &SolveResult{Status: "structure", Raw: o.Note, Backend: "sha256"}
				r.add(o)
				r.reportFailures(ld, []*OblResult{o}, nil)
			}
		}
		r.checkLemmas(ld, "C17")
		r.Notes["ground"] = "all obligations are ground (no quantified input): decided by symbolic execution of the real package initialiser and Status.Bytes() with constant folding"
		r.Trusted["pinned SHA-256 digests of cmd/zexdoc/zexdoc.cim and zexall.cim in /verif/spec/zex/lemmas.go (taken from the pristine tree)"] = true
	}
}

func init() {
	checks["C18"] = func(ld *Loaded, r *Run) {
		r.relyOnRunProtocol(ld, false)
		r.verifyHelpers(ld, func(c *Contract) bool { return ownsProp(c, "C18") || c.Fn.Pkg.Pkg.Path() == modPath })
		// the real CPU executes the instructions the BIOS consists of exactly as
		// the reference Step does (the arms of those opcodes, all components)
		bios := map[uint8]bool{0xc3: true, 0x79: true, 0xfe: true, 0x28: true, 0x76: true, 0x7b: true, 0xd3: true, 0xc9: true, 0x1a: true, 0xc8: true, 0x13: true, 0x18: true, 0xcd: true}
		r.checkArms(ld, filterEnc(func(e Encoding) bool { return e.Table == "" && bios[e.Op] }), nil, true, true)
		r.checkLemmas(ld, "C18")
		// "a jump to address 0 ends the run": Run's contract (stops at the HALT,
		// discards a stale halted indication on entry) - with the Step frame it needs
		r.establishStepFrame(ld)
		r.verifyHelpers(ld, func(c *Contract) bool { return c.Key == "z80.(*CPU).Run" })
		r.structural(ld, "Run/halt/returns", ld.runHaltReturns(), "")
		r.Assumptions["C18: io.Writer.Write(p) appends all of p to the console stream; (*log.Logger).Printf only logs (stubs)"] = true
		r.Assumptions["C18: the whole-string statement for BDOS function 9 follows from the per-iteration lemmas by induction over the string length (meta-level); program, string and stack lie outside the BIOS pages 0x0000-0x0007, 0xFE06-0xFE1C, 0xFF03"] = true
	}
}

func init() {
	checks["C19"] = func(ld *Loaded, r *Run) {
		r.verifyHelpers(ld, propFilter("C19"))
		r.Assumptions["C19: stubs: flag variables hold arbitrary values after Parse; os.ReadFile returns an arbitrary slice or an error; bufio.Writer appends what is written and a nil Flush means the file holds exactly the appended bytes; a failed OS/I/O call is recorded (run may fail only then)"] = true
	}
}
