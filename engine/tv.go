package main

// Translator validation (thorough tier of C01): the trust in "go/ssa lowering +
// vcheck's encoder = what the gc compiler runs" is sampled by co-simulation.
// For N concrete (opcode, state, memory) samples the real compiled cpu.executeOne()
// is run through `go test -overlay`, and the very same executor that generates
// the VCs is run on constant inputs (symbolic execution of constants is
// interpretation: every result must fold to a constant).  Every architectural
// leaf, the memory cells touched and the spec's difference mask must agree.
// A disagreement is an engine bug and aborts the run (exit 2), never a verdict.

import (
	"fmt"
	"go/types"
	"math/rand"
	"sort"
	"strings"
)

type tvSample struct {
	enc   Encoding
	leaf  map[string]uint64 // go path -> value
	kinds map[string]string
	mem   map[uint16]uint8
	inval uint8
	post  map[string]uint64
	diff  uint64
	memOut map[uint16]uint8
}

func (r *Run) translatorValidation(ld *Loaded, n int) {
	rng := rand.New(rand.NewSource(r.Seed + 12345))
	encs := allEncodings()
	cpuT := ld.pkgs[modPath].Type("CPU").Type()
	kinds := map[string]string{}
	ld.leafKinds(cpuT, "cpu", kinds)
	var paths []string
	for p := range kinds {
		paths = append(paths, p)
	}
	sort.Strings(paths)
	// widths of the leaves, from a probe of the symbolic CPU object
	width := map[string]int{}
	{
		px := NewExec(ld)
		pst := &State{h: Heap{}}
		pc := ld.contracts["z80.(*CPU).executeOne"]
		pargs := px.symbolicArgs(pc.Fn, pst)[0].args
		var walk func(v Value, t types.Type, gp string)
		walk = func(v Value, t types.Type, gp string) {
			switch u := v.(type) {
			case *StructV:
				stt := t.Underlying().(*types.Struct)
				for i := range u.F {
					walk(u.F[i], stt.Field(i).Type(), gp+"."+stt.Field(i).Name())
				}
			case *Term:
				width[gp] = u.S.W
			}
		}
		walk(pst.h[pargs[0].(*PtrV).Obj], cpuT, "cpu")
	}
	var samples []*tvSample
	for k := 0; k < n; k++ {
		s := &tvSample{enc: encs[k%len(encs)], leaf: map[string]uint64{}, kinds: kinds, mem: map[uint16]uint8{}, post: map[string]uint64{}, memOut: map[uint16]uint8{}}
		for _, p := range paths {
			var v uint64
			switch kd := kinds[p]; {
			case kd == "bool":
				v = uint64(rng.Intn(2))
			case strings.HasPrefix(kd, "int"):
				v = uint64(rng.Intn(3)) // IM
			default:
				switch rng.Intn(4) {
				case 0:
					v = []uint64{0, 1, 0x7f, 0x80, 0xff, 0xfffe, 0xffff, 0x00ff, 0xff00}[rng.Intn(9)]
				default:
					v = uint64(rng.Intn(65536))
				}
			}
			if w := width[p]; w > 0 && w < 64 && !strings.HasPrefix(kinds[p], "int") {
				v &= (uint64(1) << uint(w)) - 1
			}
			s.leaf[p] = v
		}
		if strings.HasSuffix(paths[0], "x") {
			_ = paths
		}
		for j := 0; j < 24; j++ {
			s.mem[uint16(rng.Intn(65536))] = uint8(rng.Intn(256))
		}
		// cells near the pointers
		for _, p := range []string{"cpu.States.SPR.PC", "cpu.States.SPR.SP", "cpu.States.SPR.IX", "cpu.States.SPR.IY"} {
			base := uint16(s.leaf[p])
			for d := -3; d <= 6; d++ {
				s.mem[base+uint16(d)] = uint8(rng.Intn(256))
			}
		}
		for _, rp := range [][2]string{{"cpu.States.GPR.HL.Hi", "cpu.States.GPR.HL.Lo"}, {"cpu.States.GPR.DE.Hi", "cpu.States.GPR.DE.Lo"}, {"cpu.States.GPR.BC.Hi", "cpu.States.GPR.BC.Lo"}} {
			base := uint16(s.leaf[rp[0]]&0xff)<<8 | uint16(s.leaf[rp[1]]&0xff)
			for d := -1; d <= 2; d++ {
				s.mem[base+uint16(d)] = uint8(rng.Intn(256))
			}
		}
		s.inval = uint8(rng.Intn(256))
		// opcode bytes
		pc := uint16(s.leaf["cpu.States.SPR.PC"])
		kk := uint16(0)
		for _, p := range s.enc.Pre {
			s.mem[pc+kk] = p
			kk++
		}
		if s.enc.CBX {
			kk++
		}
		s.mem[pc+kk] = s.enc.Op
		samples = append(samples, s)
	}
	// --- the executor on constants
	c := ld.contracts["z80.(*CPU).executeOne"]
	var engineErr []string
	for _, s := range samples {
		func() {
			defer func() {
				if rec := recover(); rec != nil {
					if u, ok := rec.(Unsupported); ok {
						engineErr = append(engineErr, "translator validation: "+u.Msg)
						return
					}
					panic(rec)
				}
			}()
			x := NewExec(ld)
			b := x.b
			st := &State{h: Heap{}}
			x.setupGhost(c.Fn.Pkg, st)
			x.initPackage(c.Fn.Pkg, st)
			inst := x.symbolicArgs(c.Fn, st)[0]
			cpu := inst.args[0].(*PtrV)
			// constants into the CPU leaves
			var set func(v Value, t types.Type, gp string) Value
			set = func(v Value, t types.Type, gp string) Value {
				switch u := v.(type) {
				case *StructV:
					stt := t.Underlying().(*types.Struct)
					n := &StructV{F: make([]Value, len(u.F))}
					for i := range u.F {
						n.F[i] = set(u.F[i], stt.Field(i).Type(), gp+"."+stt.Field(i).Name())
					}
					return n
				case *Term:
					if val, ok := s.leaf[gp]; ok {
						if u.S.K == 'b' {
							return b.Bool(val != 0)
						}
						return b.Const(u.S.W, val)
					}
				case *IfaceV:
					switch {
					case strings.HasSuffix(gp, ".Memory"), strings.HasSuffix(gp, ".IO"):
						return &IfaceV{Nil: b.False(), Opaque: u.Opaque, T: u.T}
					default:
						return &IfaceV{Nil: b.True(), T: u.T}
					}
				case *PtrV:
					return &PtrV{}
				case *MapV:
					return &MapV{Nil: b.True(), T: u.T}
				}
				return v
			}
			st.h[cpu.Obj] = set(st.h[cpu.Obj], cpuT, "cpu")
			// ghost: constant memory, empty bags
			gv := st.h[x.gobj].(*StructV)
			ng := &StructV{F: append([]Value{}, gv.F...)}
			for name, fi := range ld.ghostField {
				t, ok := gv.F[fi].(*Term)
				if !ok {
					continue
				}
				switch {
				case t.S.K == 'a' && name == "InVal":
					ng.F[fi] = b.ConstArr(t.S, b.Const(t.S.E.W, uint64(s.inval)))
				case t.S.K == 'a':
					ng.F[fi] = b.ConstArr(t.S, b.Const(t.S.E.W, 0))
				case t.S.K == 'b':
					ng.F[fi] = b.False()
				default:
					ng.F[fi] = b.Const(t.S.W, 0)
				}
			}
			mem := ng.F[ld.ghostField["Mem"]].(*Term)
			var addrs []int
			for a := range s.mem {
				addrs = append(addrs, int(a))
			}
			sort.Ints(addrs)
			for _, a := range addrs {
				mem = b.Store(mem, b.Const(16, uint64(a)), b.Const(8, uint64(s.mem[uint16(a)])))
			}
			ng.F[ld.ghostField["Mem"]] = mem
			st.h[x.gobj] = ng
			pre := st.h.clone()
			_, rst := x.run(c.Fn, inst.args, &State{h: st.h.clone()}, b.True())
			// post leaves
			var get func(v Value, t types.Type, gp string)
			get = func(v Value, t types.Type, gp string) {
				switch u := v.(type) {
				case *StructV:
					stt := t.Underlying().(*types.Struct)
					for i := range u.F {
						get(u.F[i], stt.Field(i).Type(), gp+"."+stt.Field(i).Name())
					}
				case *Term:
					if _, ok := s.leaf[gp]; !ok {
						return
					}
					switch u.Op {
					case "const":
						s.post[gp] = u.Val
					case "true":
						s.post[gp] = 1
					case "false":
						s.post[gp] = 0
					default:
						engineErr = append(engineErr, fmt.Sprintf("translator validation: %s of arm %s did not fold to a constant", gp, s.enc))
					}
				}
			}
			get(rst.h[cpu.Obj], cpuT, "cpu")
			pm := rst.h[x.gobj].(*StructV).F[ld.ghostField["Mem"]].(*Term)
			for _, a := range addrs {
				v := b.Select(pm, b.Const(16, uint64(a)))
				if v.Op == "const" {
					s.memOut[uint16(a)] = uint8(v.Val)
				}
			}
			// the spec's verdict, by the same executor
			for _, cl := range c.Ensures {
				if cl.Label == "diff" {
					d := x.evalPred(cl.Fn, inst.args, pre, rst, nil, nil).(*Term)
					if d.Op == "const" {
						s.diff = d.Val
					} else {
						engineErr = append(engineErr, fmt.Sprintf("translator validation: the difference mask of arm %s did not fold to a constant", s.enc))
					}
				}
			}
		}()
	}
	// --- the real code
	var sb strings.Builder
	sb.WriteString("package z80\n\nimport (\n\t\"fmt\"\n\t\"testing\"\n)\n\nfunc TestVerifReplay(t *testing.T) {\n")
	for k, s := range samples {
		fmt.Fprintf(&sb, "\tfunc() {\n\t\tg := new(VGhost)\n\t\tfor i := range g.InVal {\n\t\t\tg.InVal[i] = 0x%02x\n\t\t}\n", s.inval)
		var addrs []int
		for a := range s.mem {
			addrs = append(addrs, int(a))
		}
		sort.Ints(addrs)
		for _, a := range addrs {
			fmt.Fprintf(&sb, "\t\tg.Mem[0x%04x] = 0x%02x\n", a, s.mem[uint16(a)])
		}
		sb.WriteString("\t\tcpu := &CPU{}\n")
		for _, p := range paths {
			switch kd := kinds[p]; {
			case kd == "bool":
				fmt.Fprintf(&sb, "\t\t%s = %v\n", p, s.leaf[p] != 0)
			default:
				fmt.Fprintf(&sb, "\t\t%s = %d\n", p, s.leaf[p])
			}
		}
		sb.WriteString("\t\tcpu.Memory = &VsRecMem{G: g}\n\t\tcpu.IO = &VsRecIO{G: g}\n\t\toldCPU := *cpu\n\t\toldG := new(VGhost)\n\t\t*oldG = *g\n\t\tcpu.executeOne()\n")
		fmt.Fprintf(&sb, "\t\tfmt.Printf(\"TV %d", k)
		var args []string
		for _, p := range paths {
			sb.WriteString(" %d")
			if kinds[p] == "bool" {
				args = append(args, "vsB2i("+p+")")
			} else {
				args = append(args, "uint64("+p+")")
			}
		}
		sb.WriteString(" |")
		for _, a := range addrs {
			sb.WriteString(" %d")
			args = append(args, fmt.Sprintf("g.Mem[0x%04x]", a))
		}
		sb.WriteString(" | %d\\n\", " + strings.Join(args, ", ") + ", vsExecDiff(cpu, &oldCPU, g, oldG))\n\t}()\n")
	}
	sb.WriteString("}\n\nfunc vsB2i(b bool) uint64 {\n\tif b {\n\t\treturn 1\n\t}\n\treturn 0\n}\n")
	out, _ := r.runReplay(ld, sb.String(), ld.repo)
	got := map[int]string{}
	for _, ln := range strings.Split(out, "\n") {
		if strings.HasPrefix(ln, "TV ") {
			var k int
			fmt.Sscanf(ln, "TV %d", &k)
			got[k] = strings.TrimSpace(strings.SplitN(ln, " ", 3)[2])
		}
	}
	agree, disagree := 0, 0
	var firstBad string
	for k, s := range samples {
		var f []string
		for _, p := range paths {
			f = append(f, fmt.Sprintf("%d", s.post[p]))
		}
		f = append(f, "|")
		var addrs []int
		for a := range s.mem {
			addrs = append(addrs, int(a))
		}
		sort.Ints(addrs)
		for _, a := range addrs {
			f = append(f, fmt.Sprintf("%d", s.memOut[uint16(a)]))
		}
		f = append(f, "|", fmt.Sprintf("%d", s.diff))
		want := strings.Join(f, " ")
		if got[k] == want {
			agree++
		} else {
			disagree++
			if firstBad == "" {
				firstBad = fmt.Sprintf("sample %d (arm %s): executor says [%s], the compiled code says [%s]", k, s.enc, want, got[k])
			}
		}
	}
	r.Notes["translator_validation"] = map[string]interface{}{"samples": len(samples), "agree": agree, "disagree": disagree,
		"what": "cpu.executeOne() compiled by gc vs the VC-generating executor run on constants: every CPU leaf, the seeded memory cells, the spec's difference mask"}
	if disagree > 0 || len(got) == 0 {
		r.engineErr = append(r.engineErr, "translator validation failed: "+firstBad+" "+truncate(out, 400))
	}
	if len(engineErr) > 0 {
		r.engineErr = append(r.engineErr, engineErr[0])
	}
	fmt.Printf("translator validation: %d samples, %d agree, %d disagree\n", len(samples), agree, disagree)
}
