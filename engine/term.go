package main

// Hash-consed term DAG over SMT-LIB bit-vectors, arrays and booleans, with
// construction-time simplification and an SMT-LIB printer.  One builder (*B)
// per generating goroutine; terms of different builders must never be mixed.

import (
	"fmt"
	"sort"
	"strings"
)

type Sort struct {
	K    byte // 'b' bool, 'v' bitvec, 'a' array
	W    int
	I, E *Sort
	s    string
}

var sortPoolMu = make(chan struct{}, 1)
var sortPool = map[string]*Sort{}

func internSort(s *Sort) *Sort {
	switch s.K {
	case 'b':
		s.s = "Bool"
	case 'v':
		s.s = fmt.Sprintf("(_ BitVec %d)", s.W)
	default:
		s.s = fmt.Sprintf("(Array %s %s)", s.I.s, s.E.s)
	}
	sortPoolMu <- struct{}{}
	defer func() { <-sortPoolMu }()
	if o, ok := sortPool[s.s]; ok {
		return o
	}
	sortPool[s.s] = s
	return s
}

func BV(w int) *Sort {
	if w <= 0 {
		panic("BV width")
	}
	return internSort(&Sort{K: 'v', W: w})
}
func BoolS() *Sort            { return internSort(&Sort{K: 'b'}) }
func Arr(i, e *Sort) *Sort    { return internSort(&Sort{K: 'a', I: i, E: e}) }
func (s *Sort) String() string { return s.s }

type Term struct {
	Op    string // "const","var","true","false", or an SMT operator
	Args  []*Term
	S     *Sort
	Val   uint64
	Name  string
	Bound []*Term // for quantifiers
	id    int
	hasBV bool // contains a bound variable
}

type tkey struct {
	op         string
	s          *Sort
	val        uint64
	name       string
	a0, a1, a2 int
	n          int
}

type B struct {
	pool  map[tkey]*Term
	n     int
	fresh int
	tru   *Term
	fls   *Term
}

func NewB() *B {
	b := &B{pool: map[tkey]*Term{}}
	b.tru = b.mk(&Term{Op: "true", S: BoolS()})
	b.fls = b.mk(&Term{Op: "false", S: BoolS()})
	return b
}

func (b *B) mk(t *Term) *Term {
	if len(t.Args) > 3 || t.Bound != nil {
		// n-ary / quantifier nodes are not hash-consed
		b.n++
		t.id = b.n
		for _, a := range t.Args {
			if a.hasBV {
				t.hasBV = true
			}
		}
		return t
	}
	k := tkey{op: t.Op, s: t.S, val: t.Val, name: t.Name, n: len(t.Args)}
	for i, a := range t.Args {
		switch i {
		case 0:
			k.a0 = a.id
		case 1:
			k.a1 = a.id
		case 2:
			k.a2 = a.id
		}
		if a.hasBV {
			t.hasBV = true
		}
	}
	if o, ok := b.pool[k]; ok {
		return o
	}
	b.n++
	t.id = b.n
	b.pool[k] = t
	return t
}

func mask(w int) uint64 {
	if w >= 64 {
		return ^uint64(0)
	}
	return (uint64(1) << uint(w)) - 1
}

func (b *B) Const(w int, v uint64) *Term { return b.mk(&Term{Op: "const", S: BV(w), Val: v & mask(w)}) }
func (b *B) True() *Term                 { return b.tru }
func (b *B) False() *Term                { return b.fls }
func (b *B) Bool(v bool) *Term {
	if v {
		return b.tru
	}
	return b.fls
}
func (b *B) Var(name string, s *Sort) *Term { return b.mk(&Term{Op: "var", S: s, Name: name}) }
func (b *B) Fresh(prefix string, s *Sort) *Term {
	b.fresh++
	return b.Var(fmt.Sprintf("%s!%d", prefix, b.fresh), s)
}
func (b *B) BoundVar(name string, s *Sort) *Term {
	b.fresh++
	t := b.mk(&Term{Op: "var", S: s, Name: fmt.Sprintf("%s?%d", name, b.fresh)})
	t.hasBV = true
	return t
}
func isC(t *Term) bool { return t.Op == "const" }

func sext64(v uint64, w int) int64 {
	if w >= 64 {
		return int64(v)
	}
	if v>>(uint(w)-1)&1 == 1 {
		v |= ^mask(w)
	}
	return int64(v)
}

func (b *B) Bin(op string, x, y *Term) *Term {
	if x.S != y.S {
		panic(fmt.Sprintf("sort mismatch in %s: %s vs %s", op, x.S, y.S))
	}
	w := x.S.W
	if isC(x) && isC(y) {
		p, q := x.Val, y.Val
		switch op {
		case "bvadd":
			return b.Const(w, p+q)
		case "bvsub":
			return b.Const(w, p-q)
		case "bvand":
			return b.Const(w, p&q)
		case "bvor":
			return b.Const(w, p|q)
		case "bvxor":
			return b.Const(w, p^q)
		case "bvmul":
			return b.Const(w, p*q)
		case "bvshl":
			if q >= uint64(w) {
				return b.Const(w, 0)
			}
			return b.Const(w, p<<q)
		case "bvlshr":
			if q >= uint64(w) {
				return b.Const(w, 0)
			}
			return b.Const(w, p>>q)
		case "bvashr":
			if q >= uint64(w) {
				q = uint64(w - 1)
			}
			return b.Const(w, uint64(sext64(p, w)>>q))
		case "bvurem":
			if q != 0 {
				return b.Const(w, p%q)
			}
			return x
		case "bvudiv":
			if q != 0 {
				return b.Const(w, p/q)
			}
			return b.Const(w, ^uint64(0))
		}
	}
	switch op {
	case "bvor", "bvadd", "bvxor":
		if isC(x) && x.Val == 0 {
			return y
		}
		if isC(y) && y.Val == 0 {
			return x
		}
		if op == "bvor" {
			if isC(x) && x.Val == mask(w) {
				return x
			}
			if isC(y) && y.Val == mask(w) {
				return y
			}
			if x == y {
				return x
			}
		}
		if op == "bvxor" && x == y {
			return b.Const(w, 0)
		}
		// canonical order: constant last
		if isC(x) && !isC(y) {
			x, y = y, x
		}
		// (t + c1) + c2 -> t + (c1+c2)
		if op == "bvadd" && isC(y) && x.Op == "bvadd" && isC(x.Args[1]) {
			return b.Bin("bvadd", x.Args[0], b.Const(w, x.Args[1].Val+y.Val))
		}
	case "bvsub":
		if isC(y) {
			return b.Bin("bvadd", x, b.Const(w, -y.Val))
		}
		if x == y {
			return b.Const(w, 0)
		}
		// (t + c) - t  =  c
		if x.Op == "bvadd" && isC(x.Args[1]) && x.Args[0] == y {
			return x.Args[1]
		}
	case "bvand":
		if isC(x) && !isC(y) {
			x, y = y, x
		}
		if isC(y) {
			if y.Val == 0 {
				return y
			}
			if y.Val == mask(w) {
				return x
			}
			// (t & c1) & c2
			if x.Op == "bvand" && isC(x.Args[1]) {
				return b.Bin("bvand", x.Args[0], b.Const(w, x.Args[1].Val&y.Val))
			}
		}
		if x == y {
			return x
		}
	case "bvshl", "bvlshr":
		if isC(y) && y.Val == 0 {
			return x
		}
		if isC(y) && y.Val >= uint64(w) {
			return b.Const(w, 0)
		}
		if isC(x) && x.Val == 0 {
			return x
		}
	case "bvmul":
		if isC(x) && !isC(y) {
			x, y = y, x
		}
		if isC(y) && y.Val == 1 {
			return x
		}
		if isC(y) && y.Val == 0 {
			return y
		}
	}
	return b.mk(&Term{Op: op, Args: []*Term{x, y}, S: x.S})
}

func (b *B) BVNot(x *Term) *Term {
	if isC(x) {
		return b.Const(x.S.W, ^x.Val)
	}
	if x.Op == "bvnot" {
		return x.Args[0]
	}
	return b.mk(&Term{Op: "bvnot", Args: []*Term{x}, S: x.S})
}
func (b *B) BVNeg(x *Term) *Term { return b.Bin("bvsub", b.Const(x.S.W, 0), x) }

func (b *B) Cmp(op string, x, y *Term) *Term {
	if x.S != y.S {
		panic(fmt.Sprintf("sort mismatch in %s: %s vs %s", op, x.S, y.S))
	}
	// normal form: only bvult / bvslt (so that facts and hash-consing meet)
	switch op {
	case "bvuge":
		return b.Not(b.Cmp("bvult", x, y))
	case "bvugt":
		return b.Cmp("bvult", y, x)
	case "bvule":
		return b.Not(b.Cmp("bvult", y, x))
	case "bvsge":
		return b.Not(b.Cmp("bvslt", x, y))
	case "bvsgt":
		return b.Cmp("bvslt", y, x)
	case "bvsle":
		return b.Not(b.Cmp("bvslt", y, x))
	}
	if isC(x) && isC(y) {
		w := x.S.W
		var r bool
		switch op {
		case "bvult":
			r = x.Val < y.Val
		case "bvule":
			r = x.Val <= y.Val
		case "bvugt":
			r = x.Val > y.Val
		case "bvuge":
			r = x.Val >= y.Val
		case "bvslt":
			r = sext64(x.Val, w) < sext64(y.Val, w)
		case "bvsle":
			r = sext64(x.Val, w) <= sext64(y.Val, w)
		case "bvsgt":
			r = sext64(x.Val, w) > sext64(y.Val, w)
		case "bvsge":
			r = sext64(x.Val, w) >= sext64(y.Val, w)
		default:
			panic("cmp " + op)
		}
		return b.Bool(r)
	}
	if x == y {
		return b.fls
	}
	if op == "bvult" {
		// zero-extended value against a constant that does not fit
		if isC(y) && x.Op == "zext" && y.Val > mask(x.Args[0].S.W) {
			return b.tru
		}
		if isC(y) && y.Val == 0 {
			return b.fls
		}
		if isC(x) && x.Val == mask(x.S.W) {
			return b.fls
		}
	}
	return b.mk(&Term{Op: op, Args: []*Term{x, y}, S: BoolS()})
}

// concreteArr: the array is a chain of constant stores over a constant array.
func concreteArr(t *Term) (def uint64, cells map[uint64]uint64, ok bool) {
	cells = map[uint64]uint64{}
	n := 0
	for t.Op == "store" {
		if !isC(t.Args[1]) || !isC(t.Args[2]) || n > 4096 {
			return 0, nil, false
		}
		if _, seen := cells[t.Args[1].Val]; !seen {
			cells[t.Args[1].Val] = t.Args[2].Val
		}
		t = t.Args[0]
		n++
	}
	if t.Op != "constarr" || !isC(t.Args[0]) {
		return 0, nil, false
	}
	return t.Args[0].Val, cells, true
}

func (b *B) Eq(x, y *Term) *Term {
	if x.S != y.S {
		panic(fmt.Sprintf("sort mismatch in =: %s vs %s", x.S, y.S))
	}
	if x == y {
		return b.tru
	}
	if x.S.K == 'a' && (x.Op == "store" || x.Op == "constarr") && (y.Op == "store" || y.Op == "constarr") {
		if dx, cx, ok := concreteArr(x); ok {
			if dy, cy, ok := concreteArr(y); ok {
				same := dx == dy
				for k, v := range cx {
					if w, in := cy[k]; in && w != v || !in && v != dy {
						same = false
					}
				}
				for k, v := range cy {
					if _, in := cx[k]; !in && v != dx {
						same = false
					}
				}
				return b.Bool(same)
			}
		}
	}
	if isC(x) && isC(y) {
		return b.Bool(x.Val == y.Val)
	}
	if x.S.K == 'b' {
		if x.Op == "true" {
			return y
		}
		if y.Op == "true" {
			return x
		}
		if x.Op == "false" {
			return b.Not(y)
		}
		if y.Op == "false" {
			return b.Not(x)
		}
	}
	if isC(x) && !isC(y) {
		x, y = y, x
	}
	// ite(c, k1, k2) == k  with constants folds to c / !c / false
	if isC(y) && x.Op == "ite" && isC(x.Args[1]) && isC(x.Args[2]) {
		a, c := x.Args[1].Val == y.Val, x.Args[2].Val == y.Val
		switch {
		case a && c:
			return b.tru
		case a:
			return x.Args[0]
		case c:
			return b.Not(x.Args[0])
		default:
			return b.fls
		}
	}
	// zext(t) == const
	if isC(y) && x.Op == "zext" {
		iw := x.Args[0].S.W
		if y.Val > mask(iw) {
			return b.fls
		}
		return b.Eq(x.Args[0], b.Const(iw, y.Val))
	}
	if x.id > y.id && !isC(y) {
		x, y = y, x
	}
	return b.mk(&Term{Op: "=", Args: []*Term{x, y}, S: BoolS()})
}

func (b *B) Not(a *Term) *Term {
	switch a.Op {
	case "true":
		return b.fls
	case "false":
		return b.tru
	case "not":
		return a.Args[0]
	}
	return b.mk(&Term{Op: "not", Args: []*Term{a}, S: BoolS()})
}
func (b *B) And(x, y *Term) *Term {
	if x.Op == "true" {
		return y
	}
	if y.Op == "true" {
		return x
	}
	if x.Op == "false" || y.Op == "false" {
		return b.fls
	}
	if x == y {
		return x
	}
	if (x.Op == "not" && x.Args[0] == y) || (y.Op == "not" && y.Args[0] == x) {
		return b.fls
	}
	return b.mk(&Term{Op: "and", Args: []*Term{x, y}, S: BoolS()})
}
func (b *B) Or(x, y *Term) *Term {
	if x.S.K != 'b' || y.S.K != 'b' {
		panic("or of non-boolean terms")
	}
	if x.Op == "false" {
		return y
	}
	if y.Op == "false" {
		return x
	}
	if x.Op == "true" || y.Op == "true" {
		return b.tru
	}
	if x == y {
		return x
	}
	if (x.Op == "not" && x.Args[0] == y) || (y.Op == "not" && y.Args[0] == x) {
		return b.tru
	}
	return b.mk(&Term{Op: "or", Args: []*Term{x, y}, S: BoolS()})
}
func (b *B) Implies(x, y *Term) *Term { return b.Or(b.Not(x), y) }
func (b *B) AndN(ts ...*Term) *Term {
	r := b.tru
	for _, t := range ts {
		r = b.And(r, t)
	}
	return r
}

func (b *B) Ite(c, x, y *Term) *Term {
	if c.Op == "true" {
		return x
	}
	if c.Op == "false" {
		return y
	}
	if x == y {
		return x
	}
	if x.S != y.S {
		panic(fmt.Sprintf("sort mismatch in ite: %s vs %s", x.S, y.S))
	}
	if c.Op == "not" {
		return b.Ite(c.Args[0], y, x)
	}
	if x.S.K == 'b' {
		if x.Op == "true" && y.Op == "false" {
			return c
		}
		if x.Op == "false" && y.Op == "true" {
			return b.Not(c)
		}
		if x.Op == "true" {
			return b.Or(c, y)
		}
		if y.Op == "false" {
			return b.And(c, x)
		}
		if x.Op == "false" {
			return b.And(b.Not(c), y)
		}
		if y.Op == "true" {
			return b.Or(b.Not(c), x)
		}
	}
	// ite(c, ite(c, a, _), y) -> ite(c, a, y)
	if x.Op == "ite" && x.Args[0] == c {
		x = x.Args[1]
	}
	if y.Op == "ite" && y.Args[0] == c {
		y = y.Args[2]
	}
	if x == y {
		return x
	}
	return b.mk(&Term{Op: "ite", Args: []*Term{c, x, y}, S: x.S})
}

func (b *B) Extract(hi, lo int, a *Term) *Term {
	if hi >= a.S.W || lo < 0 || hi < lo {
		panic(fmt.Sprintf("bad extract %d %d of %s (%s)", hi, lo, a.S, a.Op))
	}
	if hi-lo+1 == a.S.W {
		return a
	}
	if isC(a) {
		return b.Const(hi-lo+1, a.Val>>uint(lo))
	}
	switch a.Op {
	case "zext":
		iw := a.Args[0].S.W
		if hi < iw {
			return b.Extract(hi, lo, a.Args[0])
		}
		if lo >= iw {
			return b.Const(hi-lo+1, 0)
		}
		if lo == 0 {
			return b.ZExt(hi+1, a.Args[0])
		}
	case "sext":
		iw := a.Args[0].S.W
		if hi < iw {
			return b.Extract(hi, lo, a.Args[0])
		}
	case "concat":
		lw := a.Args[1].S.W
		if hi < lw {
			return b.Extract(hi, lo, a.Args[1])
		}
		if lo >= lw {
			return b.Extract(hi-lw, lo-lw, a.Args[0])
		}
	case "extract":
		l0 := int(a.Val & 0xffff)
		return b.Extract(hi+l0, lo+l0, a.Args[0])
	case "bvand", "bvor", "bvxor":
		return b.Bin(a.Op, b.Extract(hi, lo, a.Args[0]), b.Extract(hi, lo, a.Args[1]))
	case "bvnot":
		return b.BVNot(b.Extract(hi, lo, a.Args[0]))
	case "bvadd", "bvsub", "bvmul":
		if lo == 0 {
			return b.Bin(a.Op, b.Extract(hi, 0, a.Args[0]), b.Extract(hi, 0, a.Args[1]))
		}
	case "ite":
		if isC(a.Args[1]) || isC(a.Args[2]) {
			return b.Ite(a.Args[0], b.Extract(hi, lo, a.Args[1]), b.Extract(hi, lo, a.Args[2]))
		}
	}
	return b.mk(&Term{Op: "extract", Args: []*Term{a}, S: BV(hi - lo + 1), Val: uint64(hi)<<16 | uint64(lo)})
}
func (b *B) ZExt(w int, a *Term) *Term {
	if w == a.S.W {
		return a
	}
	if w < a.S.W {
		panic("zext narrower")
	}
	if isC(a) {
		return b.Const(w, a.Val)
	}
	if a.Op == "zext" {
		return b.ZExt(w, a.Args[0])
	}
	return b.mk(&Term{Op: "zext", Args: []*Term{a}, S: BV(w)})
}
func (b *B) SExt(w int, a *Term) *Term {
	if w == a.S.W {
		return a
	}
	if w < a.S.W {
		panic("sext narrower")
	}
	if isC(a) {
		return b.Const(w, uint64(sext64(a.Val, a.S.W)))
	}
	if a.Op == "zext" {
		return b.ZExt(w, a.Args[0])
	}
	return b.mk(&Term{Op: "sext", Args: []*Term{a}, S: BV(w)})
}
func (b *B) Concat(hi, lo *Term) *Term {
	w := hi.S.W + lo.S.W
	if isC(hi) && isC(lo) && w <= 64 {
		return b.Const(w, hi.Val<<uint(lo.S.W)|lo.Val)
	}
	if isC(hi) && hi.Val == 0 {
		return b.ZExt(w, lo)
	}
	return b.mk(&Term{Op: "concat", Args: []*Term{hi, lo}, S: BV(w)})
}

// normIdx splits an index into (base, constant offset).
func normIdx(t *Term) (*Term, uint64) {
	if isC(t) {
		return nil, t.Val
	}
	if t.Op == "bvadd" && isC(t.Args[1]) {
		return t.Args[0], t.Args[1].Val
	}
	return t, 0
}

// distinctIdx reports whether two index terms are syntactically known to differ.
func distinctIdx(i, j *Term) bool {
	bi, oi := normIdx(i)
	bj, oj := normIdx(j)
	if bi == bj && oi != oj {
		return true
	}
	// concat(a, v) indices (bag keys): different if the high parts are known distinct
	if i.Op == "concat" && j.Op == "concat" && i.Args[0].S == j.Args[0].S {
		if distinctIdx(i.Args[0], j.Args[0]) {
			return true
		}
		if i.Args[1].S == j.Args[1].S && isC(i.Args[1]) && isC(j.Args[1]) && i.Args[1].Val != j.Args[1].Val {
			return true
		}
	}
	return false
}

func (b *B) Select(a, i *Term) *Term {
	if a.S.K != 'a' {
		panic("select on non-array")
	}
	if a.S.I != i.S {
		panic(fmt.Sprintf("select index sort %s on %s", i.S, a.S))
	}
	for a.Op == "store" {
		j := a.Args[1]
		if i == j {
			return a.Args[2]
		}
		if distinctIdx(i, j) {
			a = a.Args[0]
			continue
		}
		break
	}
	if a.Op == "constarr" {
		return a.Args[0]
	}
	return b.mk(&Term{Op: "select", Args: []*Term{a, i}, S: a.S.E})
}
func (b *B) Store(a, i, v *Term) *Term {
	if a.S.I != i.S || a.S.E != v.S {
		panic(fmt.Sprintf("store sorts: %s [%s] := %s", a.S, i.S, v.S))
	}
	// overwrite of the same index on top
	if a.Op == "store" && a.Args[1] == i {
		a = a.Args[0]
	}
	return b.mk(&Term{Op: "store", Args: []*Term{a, i, v}, S: a.S})
}
func (b *B) ConstArr(s *Sort, v *Term) *Term {
	return b.mk(&Term{Op: "constarr", Args: []*Term{v}, S: s})
}

func (b *B) Forall(vars []*Term, body *Term) *Term {
	if body.Op == "true" {
		return body
	}
	t := b.mk(&Term{Op: "forall", Args: []*Term{body}, S: BoolS(), Bound: vars})
	// the bound variables are closed here
	t.hasBV = false
	for _, fv := range freeBound(body, vars) {
		_ = fv
		t.hasBV = true
	}
	return t
}

func freeBound(t *Term, closed []*Term) []*Term {
	isClosed := map[*Term]bool{}
	for _, v := range closed {
		isClosed[v] = true
	}
	seen := map[*Term]bool{}
	var out []*Term
	var walk func(t *Term)
	walk = func(t *Term) {
		if seen[t] || !t.hasBV {
			return
		}
		seen[t] = true
		if t.Op == "var" {
			if !isClosed[t] {
				out = append(out, t)
			}
			return
		}
		for _, a := range t.Args {
			walk(a)
		}
	}
	walk(t)
	return out
}

// App is an uninterpreted function application.
func (b *B) App(name string, res *Sort, args ...*Term) *Term {
	return b.mk(&Term{Op: "app", Name: name, Args: args, S: res})
}

// ---------------------------------------------------------------- printing

func smtName(n string) string {
	ok := true
	for _, c := range n {
		if !(c >= 'a' && c <= 'z' || c >= 'A' && c <= 'Z' || c >= '0' && c <= '9' || c == '_' || c == '.' || c == '!' || c == '?' || c == '$') {
			ok = false
		}
	}
	if ok {
		return n
	}
	return "|" + n + "|"
}

func constStr(t *Term) string {
	if t.S.W%4 == 0 {
		return fmt.Sprintf("#x%0*x", t.S.W/4, t.Val)
	}
	return fmt.Sprintf("(_ bv%d %d)", t.Val, t.S.W)
}

func opStr(t *Term) string {
	switch t.Op {
	case "extract":
		return fmt.Sprintf("(_ extract %d %d)", t.Val>>16, t.Val&0xffff)
	case "zext":
		return fmt.Sprintf("(_ zero_extend %d)", t.S.W-t.Args[0].S.W)
	case "sext":
		return fmt.Sprintf("(_ sign_extend %d)", t.S.W-t.Args[0].S.W)
	case "app":
		return smtName(t.Name)
	}
	return t.Op
}

type smtPrinter struct {
	sb      strings.Builder
	seen    map[*Term]bool
	apps    map[string]bool
	hasQ    bool
	hasArr  bool
	hasUF   bool
	decls   []string
	defs    []string
	scalars []*Term
}

func (p *smtPrinter) ref(t *Term) string {
	switch t.Op {
	case "const":
		return constStr(t)
	case "true", "false":
		return t.Op
	case "var":
		return smtName(t.Name)
	}
	if t.hasBV || t.Op == "forall" && false {
		return p.inline(t)
	}
	return fmt.Sprintf("n%d", t.id)
}

func (p *smtPrinter) inline(t *Term) string {
	switch t.Op {
	case "const", "true", "false", "var":
		return p.ref(t)
	}
	if !t.hasBV && t.Op != "forall" {
		return p.ref(t)
	}
	var sb strings.Builder
	if t.Op == "forall" {
		sb.WriteString("(forall (")
		for _, v := range t.Bound {
			fmt.Fprintf(&sb, "(%s %s)", smtName(v.Name), v.S)
		}
		sb.WriteString(") ")
		sb.WriteString(p.inline(t.Args[0]))
		sb.WriteString(")")
		return sb.String()
	}
	if t.Op == "constarr" {
		return fmt.Sprintf("((as const %s) %s)", t.S, p.inline(t.Args[0]))
	}
	sb.WriteString("(" + opStr(t))
	for _, a := range t.Args {
		sb.WriteString(" " + p.inline(a))
	}
	sb.WriteString(")")
	return sb.String()
}

func (p *smtPrinter) walk(t *Term) {
	if p.seen[t] {
		return
	}
	p.seen[t] = true
	for _, a := range t.Args {
		p.walk(a)
	}
	if t.S.K == 'a' {
		p.hasArr = true
	}
	switch t.Op {
	case "const", "true", "false":
	case "var":
		if !t.hasBV {
			p.decls = append(p.decls, fmt.Sprintf("(declare-const %s %s)\n", smtName(t.Name), t.S))
			p.scalars = append(p.scalars, t)
		}
	case "app":
		p.hasUF = true
		if !p.apps[t.Name] {
			p.apps[t.Name] = true
			var as []string
			for _, a := range t.Args {
				as = append(as, a.S.String())
			}
			p.decls = append(p.decls, fmt.Sprintf("(declare-fun %s (%s) %s)\n", smtName(t.Name), strings.Join(as, " "), t.S))
		}
		fallthrough
	default:
		if t.Op == "forall" {
			p.hasQ = true
		}
		if t.hasBV {
			return
		}
		if t.Op == "forall" {
			p.defs = append(p.defs, fmt.Sprintf("(define-fun n%d () Bool %s)\n", t.id, p.inline(t)))
			return
		}
		if t.Op == "constarr" {
			p.defs = append(p.defs, fmt.Sprintf("(define-fun n%d () %s ((as const %s) %s))\n", t.id, t.S, t.S, p.ref(t.Args[0])))
			return
		}
		var sb strings.Builder
		fmt.Fprintf(&sb, "(define-fun n%d () %s (%s", t.id, t.S, opStr(t))
		for _, a := range t.Args {
			sb.WriteString(" " + p.ref(a))
		}
		sb.WriteString("))\n")
		p.defs = append(p.defs, sb.String())
	}
}

// Query is one solver query: hypotheses, and a list of named conjuncts whose
// conjunction is the goal.  The query asks for a model of hyps ∧ ¬(∧ goals).
type Query struct {
	Prefer []*Term // soft constraints: tried on top of a sat answer to get a replayable model
	Hyps   []*Term
	Goals  []NamedTerm
	Values []NamedTerm // extra terms to evaluate in a model
}
type NamedTerm struct {
	Name string
	T    *Term
}

// Emit prints the query.  If cover is true the goal is not negated (used for
// reachability / vacuity checks: sat expected).
type ValReq struct {
	Kind  byte // 'g' goal conjunct, 'v' extra value, 's' scalar unknown
	Label string
	Expr  string
	W     int // bit width, 0 for Bool
}

func (q *Query) Emit(b *B, cover bool) (string, []ValReq) {
	p := &smtPrinter{seen: map[*Term]bool{}, apps: map[string]bool{}}
	for _, h := range q.Hyps {
		p.walk(h)
	}
	for _, g := range q.Goals {
		p.walk(g.T)
	}
	for _, v := range q.Values {
		p.walk(v.T)
	}
	logic := "QF_BV"
	switch {
	case p.hasQ && p.hasUF:
		logic = "AUFBV"
	case p.hasQ:
		logic = "ABV"
	case p.hasUF:
		logic = "QF_AUFBV"
	case p.hasArr:
		logic = "QF_ABV"
	}
	if p.hasQ {
		logic = "ALL"
	}
	var sb strings.Builder
	fmt.Fprintf(&sb, "(set-option :produce-models true)\n(set-logic %s)\n", logic)
	sort.Strings(p.decls)
	for _, d := range p.decls {
		sb.WriteString(d)
	}
	for _, d := range p.defs {
		sb.WriteString(d)
	}
	for _, h := range q.Hyps {
		fmt.Fprintf(&sb, "(assert %s)\n", p.ref(h))
	}
	var gs []string
	for _, g := range q.Goals {
		gs = append(gs, p.ref(g.T))
	}
	conj := "true"
	if len(gs) == 1 {
		conj = gs[0]
	} else if len(gs) > 1 {
		conj = "(and " + strings.Join(gs, " ") + ")"
	}
	if cover {
		fmt.Fprintf(&sb, "(assert %s)\n", conj)
	} else {
		fmt.Fprintf(&sb, "(assert (not %s))\n", conj)
	}
	sb.WriteString("(check-sat)\n")
	// value requests, appended by the runner only when sat is expected/possible
	var vals []ValReq
	for _, g := range q.Goals {
		vals = append(vals, ValReq{'g', g.Name, p.ref(g.T), 0})
	}
	for _, v := range q.Values {
		if v.T.S.K == 'a' {
			continue
		}
		vals = append(vals, ValReq{'v', v.Name, p.ref(v.T), v.T.S.W})
	}
	for _, s := range p.scalars {
		if s.S.K != 'a' {
			vals = append(vals, ValReq{'s', s.Name, smtName(s.Name), s.S.W})
		}
	}
	return sb.String(), vals
}
