package main

// C11: relational obligations on the code itself (no reference model):
//   rel/DDFD[b]   running the FD form from the IX/IY-exchanged state gives the
//                 DD form's post-state exchanged back, with the same ordered
//                 log of memory/port accesses (prefix byte aside)
//   rel/NI-DD[b]  the DD form neither reads nor writes IY (non-interference)
//   rel/NI-FD[b]  the FD form neither reads nor writes IX

import (
	"fmt"
	"go/types"
	"sort"
	"strings"
)

type relCase struct {
	name string
	cbx  bool
	op   uint8
	kind string // DDFD, NI-DD, NI-FD
}

func relCases() []relCase {
	var cs []relCase
	for _, kind := range []string{"DDFD", "NI-DD", "NI-FD"} {
		for b := 0; b < 256; b++ {
			if b != 0xcb {
				cs = append(cs, relCase{fmt.Sprintf("rel/%s[%02X]", kind, b), false, uint8(b), kind})
			}
		}
		for b := 0; b < 256; b++ {
			cs = append(cs, relCase{fmt.Sprintf("rel/%s[CB d %02X]", kind, b), true, uint8(b), kind})
		}
	}
	return cs
}

func (ld *Loaded) relVC(rc relCase, useContracts bool) (vc *VC, err error) {
	defer func() {
		if r := recover(); r != nil {
			if u, ok := asUnsupported(r); ok {
				err = fmt.Errorf("UNSUPPORTED %s (%s)", u.Msg, rc.name)
				return
			}
			panic(r)
		}
	}()
	c := ld.contracts["z80.(*CPU).executeOne"]
	x := NewExec(ld)
	x.useContracts = useContracts
	b := x.b
	st := &State{h: Heap{}}
	x.setupGhost(c.Fn.Pkg, st)
	x.initPackage(c.Fn.Pkg, st)
	inst := x.symbolicArgs(c.Fn, st)[0]
	cpu := inst.args[0].(*PtrV)
	for _, cl := range c.Requires {
		x.assume(x.evalPred(cl.Fn, inst.args, st.h, st, nil, nil).(*Term))
	}
	x.pinBoolHyps(st, inst.args)
	base := st.h.clone()
	pc := x.getCPU(st, cpu, "PC").(*Term)
	ix := x.getCPU(st, cpu, "IX").(*Term)
	iy := x.getCPU(st, cpu, "IY").(*Term)
	mkState := func(prefix uint8, nix, niy *Term) *State {
		s := &State{h: base.clone()}
		M := x.ghostGet(s, "Mem")
		M = b.Store(M, pc, b.Const(8, uint64(prefix)))
		if rc.cbx {
			M = b.Store(M, b.Bin("bvadd", pc, b.Const(16, 1)), b.Const(8, 0xcb))
			M = b.Store(M, b.Bin("bvadd", pc, b.Const(16, 3)), b.Const(8, uint64(rc.op)))
		} else {
			M = b.Store(M, b.Bin("bvadd", pc, b.Const(16, 1)), b.Const(8, uint64(rc.op)))
		}
		x.ghostSet(s, "Mem", M)
		x.setCPU(s, cpu, nix, "IX")
		x.setCPU(s, cpu, niy, "IY")
		return s
	}
	var s1, s2 *State
	var swap bool
	other := b.Var("OTHER_INDEX", BV(16))
	switch rc.kind {
	case "DDFD":
		s1, s2, swap = mkState(0xdd, ix, iy), mkState(0xfd, iy, ix), true
	case "NI-DD":
		s1, s2 = mkState(0xdd, ix, iy), mkState(0xdd, ix, other)
	case "NI-FD":
		s1, s2 = mkState(0xfd, ix, iy), mkState(0xfd, other, iy)
	}
	x.obligs = nil
	_, p1 := x.run(c.Fn, inst.args, &State{h: s1.h.clone()}, b.True())
	_, p2 := x.run(c.Fn, inst.args, &State{h: s2.h.clone()}, b.True())
	x.obligs = nil // safety is C12's business
	q := &Query{Hyps: x.hyps}
	// hypothesis: the instruction's data reads do not hit the prefix byte
	// itself (there the two runs legitimately read DD vs FD)
	if rc.kind == "DDFD" {
		rd0 := x.ghostGet(&State{h: base}, "Rd")
		rd1 := x.ghostGet(p1, "Rd")
		q.Hyps = append(q.Hyps, b.Eq(b.Select(rd1, pc), b.Bin("bvadd", b.Select(rd0, pc), b.Const(8, 1))))
	}
	// CPU leaves
	c1, c2 := p1.h[cpu.Obj], p2.h[cpu.Obj]
	cpuT := ld.pkgs[modPath].Type("CPU").Type()
	var walk func(a, d Value, t types.Type, name string)
	walk = func(a, d Value, t types.Type, name string) {
		if sa, ok := a.(*StructV); ok {
			sd := d.(*StructV)
			stt := t.Underlying().(*types.Struct)
			for i := range sa.F {
				walk(sa.F[i], sd.F[i], stt.Field(i).Type(), name+"."+stt.Field(i).Name())
			}
			return
		}
		switch {
		case strings.HasSuffix(name, ".IX"), strings.HasSuffix(name, ".IY"):
			return
		}
		if e := x.valEq(a, d); e.Op != "true" {
			q.Goals = append(q.Goals, NamedTerm{strings.TrimPrefix(name, "."), e})
		}
	}
	walk(c1, c2, cpuT, "")
	ix1, iy1 := x.getCPU(p1, cpu, "IX").(*Term), x.getCPU(p1, cpu, "IY").(*Term)
	ix2, iy2 := x.getCPU(p2, cpu, "IX").(*Term), x.getCPU(p2, cpu, "IY").(*Term)
	add := func(n string, t *Term) {
		if t.Op != "true" {
			q.Goals = append(q.Goals, NamedTerm{n, t})
		}
	}
	switch rc.kind {
	case "DDFD":
		add("IX<->IY", b.And(b.Eq(ix2, iy1), b.Eq(iy2, ix1)))
	case "NI-DD":
		add("IX", b.Eq(ix1, ix2))
		add("IY-untouched", b.And(b.Eq(iy1, iy), b.Eq(iy2, other)))
	case "NI-FD":
		add("IY", b.Eq(iy1, iy2))
		add("IX-untouched", b.And(b.Eq(ix1, ix), b.Eq(ix2, other)))
	}
	// ghost: memory (prefix byte aside), bags, ordered log
	for _, f := range []string{"Rd", "Wr", "PIn", "POut", "Log", "LogN", "Retn", "Reti"} {
		if _, ok := ld.ghostField[f]; !ok {
			continue
		}
		add("ghost."+f, b.Eq(x.ghostGet(p1, f), x.ghostGet(p2, f)))
	}
	m1, m2 := x.ghostGet(p1, "Mem"), x.ghostGet(p2, "Mem")
	if swap {
		z := b.Const(8, 0)
		add("ghost.Mem", b.Eq(b.Store(m1, pc, z), b.Store(m2, pc, z)))
		a1, a2 := b.Select(m1, pc), b.Select(m2, pc)
		add("ghost.Mem[PC]", b.Or(b.Eq(a1, a2), b.And(b.Eq(a1, b.Const(8, 0xdd)), b.Eq(a2, b.Const(8, 0xfd)))))
	} else {
		add("ghost.Mem", b.Eq(m1, m2))
	}
	x.addReplayValues(q, base, cpu)
	q.Values = append(q.Values, NamedTerm{"rel:other", other})
	rcc := rc
	return &VC{Name: "z80." + rc.name, Layer: "P", Query: q, B: x.b, Exec: x, Replay: &ReplaySpec{Kind: "rel", Rel: &rcc}}, nil
}

func (r *Run) checkRel(ld *Loaded) {
	cases := relCases()
	if r.only != "" {
		var f []relCase
		for _, rc := range cases {
			if strings.Contains(rc.name, r.only) {
				f = append(f, rc)
			}
		}
		cases = f
	}
	run := func(useContracts bool, cs []relCase) []*OblResult {
		return r.pipeline(len(cs), func(i int) (*VC, error) { return ld.relVC(cs[i], useContracts) })
	}
	res := run(true, cases)
	final := map[string]*OblResult{}
	var retry []relCase
	for _, o := range res {
		final[o.Name] = o
		if o.Status != "discharged" && o.applied > 0 {
			retry = append(retry, cases[o.vc.caseIdx])
		}
	}
	if len(retry) > 0 && !r.aborted {
		for _, o := range run(false, retry) {
			if o.Status == "discharged" {
				r.Stale = append(r.Stale, o.Name+": discharged only against callee bodies")
			}
			final[o.Name] = o
		}
	}
	var names []string
	for n := range final {
		names = append(names, n)
	}
	sort.Strings(names)
	var bad []*OblResult
	for _, n := range names {
		o := final[n]
		r.add(o)
		if o.Status != "discharged" {
			bad = append(bad, o)
		}
	}
	r.reportFailures(ld, bad, nil)
}

func init() {
	checks["C11"] = func(ld *Loaded, r *Run) {
		r.verifyHelpers(ld, nil)
		r.checkRel(ld)
		r.Assumptions["C11: the instruction's data reads do not hit its own prefix byte (there the DD and FD runs legitimately read different values)"] = true
	}
}
