package main

// C12: totality.  (a) zero-annotation safety obligations (index, slice bounds,
// nil dereference, nil-map write, type assertion, division, explicit panic)
// of everything below Step, per opcode-byte case and per request case;
// (b) structural termination: the static call graph below Step is acyclic and
// no function in it has a loop; (c) unsupported opcodes are consumed and
// nothing else changes (the arms of the unimplemented encodings).

import (
	"fmt"
	"go/types"
	"sort"
	"strings"

	"golang.org/x/tools/go/ssa"
)

// structure checks the call tree below root for recursion and loops.
func (ld *Loaded) structure(root *ssa.Function) (funcs int, problems []string) {
	var boundedLoops, dynamic []string
	defer func() {
		ld.structNotes = map[string][]string{"loops_with_established_bound": boundedLoops, "dynamic_calls": dynamic}
	}()
	state := map[*ssa.Function]int{}
	var stack []string
	var walk func(f *ssa.Function)
	walk = func(f *ssa.Function) {
		switch state[f] {
		case 1:
			problems = append(problems, "recursion: "+strings.Join(append(stack, fnKey(f)), " -> "))
			return
		case 2:
			return
		}
		state[f] = 1
		stack = append(stack, fnKey(f))
		funcs++
		if f.Blocks != nil {
			if hs := analyze(f).headers; len(hs) > 0 {
				// a loop is fine if the unrolling of the function is complete for all
				// arguments (every test folds, or the unwinding assertion is
				// discharged): then it runs a bounded number of rounds
				if why := ld.loopBounded(f); why != "" {
					problems = append(problems, fmt.Sprintf("loop in %s (block %d): a bound on its iterations is not established (%s)", fnKey(f), hs[0].Index, why))
				} else {
					boundedLoops = append(boundedLoops, fnKey(f))
				}
			}
		}
		for _, blk := range f.Blocks {
			for _, ins := range blk.Instrs {
				var cc *ssa.CallCommon
				switch i := ins.(type) {
				case *ssa.Call:
					cc = &i.Call
				case *ssa.Defer:
					cc = &i.Call
				case *ssa.Go:
					problems = append(problems, "go statement in "+fnKey(f))
					continue
				}
				if cc == nil {
					continue
				}
				if cc.IsInvoke() {
					// user-supplied Memory/IO/handlers: assumed total; the module's own
					// implementations reachable here (im0data) are walked explicitly.
					// Inside im0data itself the receiver of an invoke is its base memory,
					// which processInterrupt always sets to the user's memory (never
					// another overlay: it restores cpu.Memory before returning).
					if f.Signature.Recv() != nil && strings.Contains(f.Signature.Recv().Type().String(), "im0data") {
						continue
					}
					for _, t := range []string{"im0data"} {
						if m := ld.pkgs[modPath].Type(t); m != nil {
							ms := ld.prog.MethodSets.MethodSet(ptrTo(m.Type()))
							if sel := ms.Lookup(cc.Method.Pkg(), cc.Method.Name()); sel != nil {
								if fn := ld.prog.MethodValue(sel); fn != nil {
									walk(fn)
								}
							}
						}
					}
					continue
				}
				c := cc.StaticCallee()
				if c == nil {
					if _, ok := cc.Value.(*ssa.Builtin); ok {
						continue
					}
					// a call through a function value: any function of the module
					// with this signature whose address is taken somewhere
					sig, _ := cc.Value.Type().Underlying().(*types.Signature)
					n := 0
					for _, t := range ld.addressTaken() {
						if sig != nil && types.Identical(t.Signature, sig) {
							n++
							walk(t)
						}
					}
					dynamic = append(dynamic, fmt.Sprintf("%s: %s (%d possible callees walked)", fnKey(f), cc.String(), n))
					continue
				}
				if c.Pkg == nil || !strings.HasPrefix(c.Pkg.Pkg.Path(), modPath) {
					continue // external: stubs (assumed total)
				}
				if ld.logOnly(c) {
					continue
				}
				walk(c)
			}
		}
		stack = stack[:len(stack)-1]
		state[f] = 2
	}
	walk(root)
	sort.Strings(problems)
	return
}

func (r *Run) checkStructure(ld *Loaded, key string) {
	fn := ld.funcByKey(key)
	name := key + "/terminates/structure"
	if fn == nil {
		r.engineErr = append(r.engineErr, "no function "+key)
		return
	}
	n, probs := ld.structure(fn)
	o := &OblResult{Name: name, Layer: "P", Backend: "call-graph/CFG analysis"}
	if len(probs) == 0 {
		o.Status = "discharged"
		r.Notes["structure:"+key] = fmt.Sprintf("%d functions below %s: acyclic call graph (calls through function values resolved to every address-taken function of the signature), every loop with an established bound, no go statement", n, key)
		for k, v := range ld.structNotes {
			if len(v) > 0 {
				r.Notes["structure:"+key+":"+k] = v
			}
		}
		r.add(o)
		return
	}
	o.Status = "failed"
	o.Note = strings.Join(probs, "; ")
	o.res = &SolveResult{Status: "structure", Raw: o.Note, Backend: "call-graph/CFG analysis"}
	r.add(o)
	r.reportFailures(ld, []*OblResult{o}, nil)
}

func init() {
	checks["C12"] = func(ld *Loaded, r *Run) {
		r.verifyHelpers(ld, nil)
		// (a) safety of every opcode-byte case and (c) the unimplemented encodings
		// on all components: one arm run with all components (so that the contract
		// of executeOne can be used by Step), then only the owned parts are reported
		r.checkArms(ld, allEncodings(), nil, true, true)
		// (a) Step: every request case, safety (and frame) only
		cs := stepCases(false)
		for i := range cs {
			cs[i].onlySafety = true
		}
		r.checkFn(ld, "z80.(*CPU).Step", cs, nil, true, true, "cpu.Step()")
		r.verifyLayerP(ld, "C12")
		// (a'') the mode-0 overlay is a total Memory for every Data (lemma over the real functions)
		r.checkLemmas(ld, "C12")
		// (a') the bundled memory / port implementations behind Step
		r.checkBundledTotality(ld)
		// (b)
		r.checkStructure(ld, "z80.(*CPU).Step")
		// "Run returns once its program halts": in the iteration in which the halted
		// indication is found set Run returns; Run itself does nothing but call Step
		r.structural(ld, "Run/halt/returns", ld.runHaltReturns(), "")
		r.structural(ld, "Run/footprint", ld.runFootprint(), "")
		r.Assumptions["C12: user-supplied Memory/IO/handler methods and package log terminate and do not panic"] = true
		r.Assumptions["C12: totality of mode 0 when the overlay is inactive or Data is shorter than the opcode is compositional: executeOne is panic-free for every total Memory, im0data.Get/Set are total on every overlay newIm0data builds (lemma spec.vsLemma_C12_Im0Total, discharged)"] = true
		r.Assumptions["C12: stack exhaustion / out-of-memory are not modelled; termination of Run for a given program is the halting problem (C08 proves: Run returns in the iteration that executes HALT)"] = true
	}
}

// totalityVC: Step is panic-free when the CPU is wired to the *bundled* memory
// and port implementations (short DumbMemory / DumbIO of any length,
// initialised MapMemory), for every opcode (symbolic, not split), every
// register state and every request.  The memory methods are used through
// their own contracts (C15), so the only safety obligations left are the
// emulator's own.
func (ld *Loaded) totalityVC(name, memKind, ioKind string, withIntr bool) (vc *VC, err error) {
	defer func() {
		if r := recover(); r != nil {
			if u, ok := asUnsupported(r); ok {
				err = fmt.Errorf("UNSUPPORTED %s (%s)", u.Msg, name)
				return
			}
			panic(r)
		}
	}()
	stepFn := ld.funcByKey("z80.(*CPU).Step")
	x := NewExec(ld)
	x.useContracts = true
	b := x.b
	st := &State{h: Heap{}}
	x.setupGhost(stepFn.Pkg, st)
	x.initPackage(stepFn.Pkg, st)
	inst := x.symbolicArgs(stepFn, st)[0]
	cpu := inst.args[0].(*PtrV)
	pkg := ld.pkgs[modPath]
	memI := pkg.Type("Memory").Type()
	ioI := pkg.Type("IO").Type()
	switch memKind {
	case "DumbMemory":
		t := pkg.Type("DumbMemory").Type()
		x.setCPU(st, cpu, &IfaceV{Dyn: x.symV(t, "dumbmem", st.h), DynT: t, T: memI}, "Memory")
	case "MapMemory":
		t := pkg.Type("MapMemory").Type()
		mv := x.symV(t, "mapmem", st.h).(*MapV)
		mv.Nil = b.False() // an initialised MapMemory
		x.setCPU(st, cpu, &IfaceV{Dyn: mv, DynT: t, T: memI}, "Memory")
	default:
		mi := x.getCPU(st, cpu, "Memory").(*IfaceV)
		x.setCPU(st, cpu, &IfaceV{Nil: b.False(), Opaque: mi.Opaque, T: mi.T}, "Memory")
	}
	switch ioKind {
	case "DumbIO":
		t := pkg.Type("DumbIO").Type()
		x.setCPU(st, cpu, &IfaceV{Dyn: x.symV(t, "dumbio", st.h), DynT: t, T: ioI}, "IO")
	case "nil":
		x.setCPU(st, cpu, &IfaceV{Nil: b.True(), T: ioI}, "IO")
	}
	if !withIntr {
		x.setCPU(st, cpu, &PtrV{}, "Interrupt")
	} else {
		ip := x.intrObj(st, cpu)
		x.setCPU(st, cpu, &PtrV{Obj: ip.Obj, Path: ip.Path}, "Interrupt")
		// mode 0 behind a bundled memory is compositional (im0data is total over any
		// total base memory): excluded here, IM is any other value
		im := x.getCPU(st, cpu, "IM").(*Term)
		e := b.Eq(im, b.Const(64, 0))
		x.assume(b.Not(e))
		x.seedFacts = map[*Term]*Term{e: b.False()}
	}
	x.obligs = nil
	x.run(stepFn, inst.args, &State{h: st.h.clone(), facts: x.seedFacts}, b.True())
	q := &Query{Hyps: x.hyps, Goals: x.obligs}
	// values for the replay: CPU leaves, request, and the bundled stores
	pre := st.h
	x.addReplayValues(q, pre, cpu)
	for _, f := range []string{"Memory", "IO"} {
		if iv, ok := x.getCPU(st, cpu, f).(*IfaceV); ok && iv.Dyn != nil {
			if sl, ok := iv.Dyn.(*SliceV); ok {
				q.Values = append(q.Values, NamedTerm{"tot:" + f + ":len", sl.Len})
				q.Prefer = append(q.Prefer, b.Not(b.Cmp("bvult", b.Const(64, 0x10000), sl.Len)))
				if arr, ok := st.h[sl.Obj].(*Term); ok {
					r0 := arr
					for r0.Op == "store" {
						r0 = r0.Args[0]
					}
					if r0.Op == "var" {
						for k, ix := range x.reads[r0.Name] {
							q.Values = append(q.Values, NamedTerm{fmt.Sprintf("totcell:%s:%d:idx", f, k), ix})
							q.Values = append(q.Values, NamedTerm{fmt.Sprintf("totcell:%s:%d:val", f, k), b.Select(arr, ix)})
						}
					}
				}
			}
		}
	}
	return &VC{Name: name, Layer: "P", Query: q, B: b, Exec: x, Replay: &ReplaySpec{Kind: "step", Intr: withIntr, Total: memKind + "/" + ioKind}}, nil
}

func (r *Run) checkBundledTotality(ld *Loaded) {
	type tc struct {
		mem, io string
		intr    bool
	}
	var cases []tc
	for _, intr := range []bool{false, true} {
		cases = append(cases, tc{"DumbMemory", "nil", intr}, tc{"MapMemory", "DumbIO", intr}, tc{"user", "DumbIO", intr})
	}
	res := r.pipeline(len(cases), func(i int) (*VC, error) {
		c := cases[i]
		req := "no request"
		if c.intr {
			req = "any request"
		}
		return ld.totalityVC(fmt.Sprintf("z80.(*CPU).Step/total[Memory=%s IO=%s %s]", c.mem, c.io, req), c.mem, c.io, c.intr)
	})
	var bad []*OblResult
	for _, o := range res {
		r.add(o)
		if o.Status != "discharged" {
			bad = append(bad, o)
		}
	}
	r.reportFailures(ld, bad, nil)
}

// addressTaken: the functions of the module that are used as values
// (operands that are not the callee of a static call, closures).
func (ld *Loaded) addressTaken() []*ssa.Function {
	ld.fiMu.Lock()
	defer ld.fiMu.Unlock()
	if ld.addrTaken != nil {
		return ld.addrTaken
	}
	seen := map[*ssa.Function]bool{}
	note := func(v ssa.Value) {
		if f, ok := v.(*ssa.Function); ok && f.Pkg != nil && strings.HasPrefix(f.Pkg.Pkg.Path(), modPath) {
			seen[f] = true
		}
	}
	for _, pkg := range ld.prog.AllPackages() {
		if !strings.HasPrefix(pkg.Pkg.Path(), modPath) {
			continue
		}
		var fns []*ssa.Function
		for _, m := range pkg.Members {
			if f, ok := m.(*ssa.Function); ok {
				fns = append(fns, f)
			}
			if t, ok := m.(*ssa.Type); ok {
				for _, tt := range []types.Type{t.Type(), types.NewPointer(t.Type())} {
					ms := ld.prog.MethodSets.MethodSet(tt)
					for i := 0; i < ms.Len(); i++ {
						if f := ld.prog.MethodValue(ms.At(i)); f != nil {
							fns = append(fns, f)
						}
					}
				}
			}
		}
		for k := 0; k < len(fns); k++ {
			f := fns[k]
			fns = append(fns, f.AnonFuncs...)
			for _, blk := range f.Blocks {
				for _, ins := range blk.Instrs {
					switch i := ins.(type) {
					case *ssa.Call:
						for _, a := range i.Call.Args {
							note(a)
						}
						if i.Call.StaticCallee() == nil {
							note(i.Call.Value)
						}
						continue
					case *ssa.MakeClosure:
						if fn, ok := i.Fn.(*ssa.Function); ok {
							seen[fn] = true
						}
					}
					for _, op := range ins.Operands(nil) {
						if op != nil && *op != nil {
							note(*op)
						}
					}
				}
			}
		}
	}
	out := []*ssa.Function{}
	for f := range seen {
		out = append(out, f)
	}
	sort.Slice(out, func(i, j int) bool { return out[i].String() < out[j].String() })
	ld.addrTaken = out
	return out
}

// loopBounded runs the function once with arbitrary arguments; "" if every
// loop in it was unrolled completely (exactly, or with the unwinding assertion
// discharged by the solver), else the reason.
func (ld *Loaded) loopBounded(f *ssa.Function) (why string) {
	defer func() {
		if r := recover(); r != nil {
			if u, ok := asUnsupported(r); ok {
				why = u.Msg
				return
			}
			panic(r)
		}
	}()
	x := NewExec(ld)
	x.useContracts = false
	x.ignoreLoops = true
	st := &State{h: Heap{}}
	x.setupGhost(f.Pkg, st)
	x.initPackage(f.Pkg, st)
	args := x.symbolicArgs(f, st)[0].args
	x.run(f, args, &State{h: st.h.clone()}, x.b.True())
	if len(x.bounded) > 0 {
		return strings.Join(x.bounded, "; ")
	}
	return ""
}
