package main

import (
	"fmt"
	"go/types"
	"os"
	"strconv"
	"strings"

	"golang.org/x/tools/go/ssa"
)

func (x *Exec) doCall(call *ssa.CallCommon, fnv Value, args []Value, st *State, pc *Term, caller *ssa.Function) Value {
	b := x.b
	if call.IsInvoke() {
		recv := fnv.(*IfaceV)
		x.oblige("nil-iface-call", pc, b.Not(x.ifaceNil(recv)))
		return x.invoke(recv, call.Method, args, st, pc)
	}
	if bi, ok := call.Value.(*ssa.Builtin); ok {
		return x.builtin(bi.Name(), call, args, st, pc)
	}
	if sf, ok := fnv.(*StubFnV); ok {
		x.events = append(x.events, callEvent{sf.Name, pc})
		return nil
	}
	if call.StaticCallee() == nil && isFuncKind(fnv) {
		if _, plain := fnv.(*FuncV); !plain {
			return x.callFuncSet(call, fnv, args, st, pc)
		}
	}
	var callee *ssa.Function
	var bind []Value
	if c := call.StaticCallee(); c != nil {
		callee = c
		if fv, ok := fnv.(*FuncV); ok {
			bind = fv.Bindings
		}
	} else if fv, ok := fnv.(*FuncV); ok && fv.Fn != nil {
		callee, bind = fv.Fn, fv.Bindings
	} else {
		unsupported("dynamic call in %s: %s", caller.Name(), call.String())
	}
	return x.callFn(callee, bind, args, st, pc)
}

// callFuncSet: a call through a function value that depends on the path.  Every
// possible callee is executed under its guard and the outcomes are merged; a
// nil or unknown function value under a feasible guard is a failed obligation
// (the call panics, or runs code the verifier knows nothing about).
func (x *Exec) callFuncSet(call *ssa.CallCommon, fnv Value, args []Value, st *State, pc *Term) Value {
	b := x.b
	var outH Heap
	var outV Value
	var zero Value
	if res := call.Signature().Results(); res.Len() == 1 {
		zero = x.zeroV(res.At(0).Type())
	} else if res.Len() > 1 {
		zero = x.zeroV(res)
	}
	first := true
	for _, lf := range x.funcLeaves(fnv, b.True(), nil) {
		g := b.And(pc, lf.g)
		if g.Op == "false" {
			continue
		}
		sub := &State{h: st.h.clone(), defers: st.defers, facts: st.facts}
		rv := zero
		switch f := lf.v.(type) {
		case *FuncV:
			if f.Fn == nil {
				x.oblige("nil-func-call", g, b.False())
			} else {
				rv = x.callFn(f.Fn, f.Bindings, args, sub, g)
			}
		default:
			x.oblige("call-of-unknown-function-value", g, b.False())
		}
		if first {
			outH, outV, first = sub.h, rv, false
			continue
		}
		x.curHeapForStr = outH
		x.curHeapA, x.curHeapB = sub.h, outH
		nh := make(Heap, len(outH))
		for o, v := range sub.h {
			if ov, ok := outH[o]; ok {
				nh[o] = x.iteV(lf.g, v, ov)
			} else {
				nh[o] = v
			}
		}
		if rv != nil && outV != nil {
			outV = x.iteV(lf.g, rv, outV)
		}
		for o, v := range x.pendingObjs {
			nh[o] = v
			delete(x.pendingObjs, o)
		}
		for o, v := range outH {
			if _, ok := nh[o]; !ok {
				nh[o] = v
			}
		}
		outH = nh
	}
	if first {
		return zero
	}
	st.h = outH
	return outV
}

func fullName(fn *ssa.Function) string {
	if fn.Pkg != nil {
		return fn.Pkg.Pkg.Path() + "." + fn.RelString(fn.Pkg.Pkg)
	}
	return fn.String()
}

// StubFnV is a function value of an external package that the engine only
// records calls of (context.CancelFunc).
type StubFnV struct{ Name string }

type callEvent struct {
	Name string
	PC   *Term
}

// ghostGoverned: v is an opaque interface value under the interface call rule
// (user Memory / IO / handlers) and t a concrete type of the module.
func (x *Exec) ghostGoverned(v *IfaceV, t types.Type) bool {
	if x.gobj == nil || v.Opaque == "" || v.Dyn != nil || v.AltC != nil {
		return false
	}
	if _, isIface := t.Underlying().(*types.Interface); isIface {
		return false
	}
	var n *types.Named
	switch u := t.(type) {
	case *types.Named:
		n = u
	case *types.Pointer:
		n, _ = u.Elem().(*types.Named)
	}
	if n == nil || n.Obj().Pkg() == nil || !strings.HasPrefix(n.Obj().Pkg().Path(), modPath) {
		return false
	}
	it, ok := v.T.Underlying().(*types.Interface)
	return ok && types.Implements(t, it)
}

func (x *Exec) callFn(callee *ssa.Function, bind []Value, args []Value, st *State, pc *Term) Value {
	if len(args) > 0 && callee.Signature.Recv() != nil {
		if gr, ok := args[0].(*GhostRecvV); ok {
			if m, ok := callee.Object().(*types.Func); ok {
				x.oblige("nil-iface-call", pc, x.b.Not(x.ifaceNil(gr.Iface)))
				return x.invoke(gr.Iface, m, args[1:], st, pc)
			}
		}
	}
	if x.inInit && callee.Name() == "init" && callee.Pkg != nil && len(args) == 0 && !x.initGuard {
		// the initialiser of an imported package.  If it lies outside the
		// verifier's subset its variables are arbitrary from here on and every
		// symbolic run that reads one of them is marked as unable to prove (it
		// can still refute with a replay); runs that never touch the package
		// are not affected.
		nh, no := len(x.hyps), len(x.obligs)
		var failed string
		func() {
			defer func() {
				if r := recover(); r != nil {
					if u, ok := asUnsupported(r); ok {
						failed = u.Msg
						return
					}
					panic(r)
				}
			}()
			x.initGuard = true
			defer func() { x.initGuard = false }()
			x.callFn(callee, bind, args, st, pc)
		}()
		if failed != "" {
			x.hyps, x.obligs = x.hyps[:nh], x.obligs[:no]
			if x.poisoned == nil {
				x.poisoned = map[*ssa.Package]string{}
			}
			x.poisoned[callee.Pkg] = failed
			for g, o := range x.globals {
				if g.Pkg == callee.Pkg {
					et := g.Type().Underlying().(*types.Pointer).Elem()
					st.h[o] = x.symV(et, "global_"+g.Name(), st.h)
				}
			}
		}
		return nil
	}
	if c := x.ld.contractFor(callee); c != nil && c.Counts != "" && x.gobj != nil && x.inSpec == 0 {
		n := x.ghostGet(st, c.Counts)
		if n.S.K == 'b' {
			x.ghostSet(st, c.Counts, x.b.Or(n, pc)) // "has been called"
		} else {
			x.ghostSet(st, c.Counts, x.b.Bin("bvadd", n, x.b.Ite(pc, x.b.Const(n.S.W, 1), x.b.Const(n.S.W, 0))))
		}
	}
	if x.callHook != nil {
		if r, ok := x.callHook(x, callee, args, st, pc); ok {
			return r
		}
	}
	if strings.HasPrefix(callee.Name(), "vsForall") && len(args) == 1 {
		// ghost built-in: universal quantification over the closure's parameter
		fv, ok := args[0].(*FuncV)
		if !ok || fv.Fn == nil || len(fv.Fn.Params) != 1 {
			unsupported("vsForall needs a function literal with one parameter")
		}
		s := sortOf(fv.Fn.Params[0].Type())
		if s == nil {
			unsupported("vsForall over %v", fv.Fn.Params[0].Type())
		}
		k := x.b.BoundVar("k", s)
		saveO := x.obligs
		body, _ := x.runBound(fv.Fn, fv.Bindings, []Value{k}, st, x.b.True())
		x.obligs = saveO
		return x.b.Forall([]*Term{k}, body.(*Term))
	}
	if callee.Name() == "vsFreshMap" && len(args) == 1 {
		// ghost built-in: the map object was created by the function under
		// verification (it cannot alias anything the caller holds)
		if m, ok := args[0].(*MapV); ok {
			if m.Fresh == nil {
				return x.b.False()
			}
			return x.b.And(x.b.Not(x.mapNil(m)), m.Fresh)
		}
	}
	if callee.Name() == "vsGhostMem" && len(args) == 1 {
		// ghost built-in: the interface value is governed by the interface
		// call rule (an opaque, user-supplied Memory), i.e. g describes it
		if iv, ok := args[0].(*IfaceV); ok {
			if iv.Opaque != "" && iv.Dyn == nil {
				return x.b.Not(x.ifaceNil(iv))
			}
			return x.b.False()
		}
	}
	if r, ok := x.stub(callee, args, st, pc); ok {
		return r
	}
	if x.useContracts {
		if c := x.ld.contractFor(callee); c != nil && c.Usable() {
			alt := false
			for _, a := range args {
				if p, ok := a.(*PtrV); ok && p.AltC != nil {
					alt = true // (a frame over "one of two locations": verified in place instead)
				}
			}
			if !alt {
				return x.applyContract(c, args, st, pc)
			}
		}
	}
	inModule := callee.Pkg != nil && strings.HasPrefix(callee.Pkg.Pkg.Path(), modPath)
	if callee.Pkg == nil && callee.Synthetic != "" && callee.Blocks != nil {
		// bound-method / thunk wrapper generated by go/ssa: executed like any body
		if o := callee.Object(); o != nil && o.Pkg() != nil && strings.HasPrefix(o.Pkg().Path(), modPath) {
			inModule = true
		}
	}
	if callee.Blocks == nil || !inModule {
		unsupported("external function without stub: %s", fullName(callee))
	}
	if x.inSpec == 0 {
		x.inlined++
		if x.inlinedFns == nil {
			x.inlinedFns = map[string]bool{}
		}
		x.inlinedFns[fnKey(callee)] = true
	}
	rv, rst := x.runBound(callee, bind, args, st, pc)
	st.h = rst.h
	return rv
}

func (x *Exec) runBound(fn *ssa.Function, bind []Value, args []Value, st *State, pc *Term) (Value, *State) {
	if len(fn.FreeVars) != len(bind) {
		unsupported("closure bindings mismatch for %s", fn.Name())
	}
	if len(bind) == 0 {
		return x.run(fn, args, &State{h: st.h, facts: st.facts}, pc)
	}
	// free variables are looked up through vals: pass them as extra params
	x.freeBind = append(x.freeBind, map[ssa.Value]Value{})
	for i, fv := range fn.FreeVars {
		x.freeBind[len(x.freeBind)-1][fv] = bind[i]
	}
	defer func() { x.freeBind = x.freeBind[:len(x.freeBind)-1] }()
	return x.run(fn, args, &State{h: st.h, facts: st.facts}, pc)
}

// ------------------------------------------------------------ interface rule

func (x *Exec) gfield(name string) int {
	i, ok := x.ld.ghostField[name]
	if !ok {
		panic("ghost field " + name)
	}
	return i
}

func (x *Exec) ghostGet(st *State, name string) *Term {
	return st.h[x.gobj].(*StructV).F[x.gfield(name)].(*Term)
}
func (x *Exec) ghostSet(st *State, name string, v *Term) {
	g := st.h[x.gobj].(*StructV)
	n := &StructV{F: append([]Value{}, g.F...)}
	n.F[x.gfield(name)] = v
	st.h[x.gobj] = n
}

// ghostField2 / ghostGet2 / ghostSet2: ghost fields of the package under
// verification (packages other than z80 have their own VGhost).
func (ld *Loaded) ghostField2(x *Exec, name string) (int, bool) {
	if x.gobj == nil || x.gobj.T == nil {
		return 0, false
	}
	st, ok := x.gobj.T.Underlying().(*types.Struct)
	if !ok {
		return 0, false
	}
	for i := 0; i < st.NumFields(); i++ {
		if st.Field(i).Name() == name {
			return i, true
		}
	}
	return 0, false
}
func (x *Exec) ghostGet2(st *State, name string) *Term {
	i, _ := x.ld.ghostField2(x, name)
	return st.h[x.gobj].(*StructV).F[i].(*Term)
}
func (x *Exec) ghostSet2(st *State, name string, v *Term) {
	i, _ := x.ld.ghostField2(x, name)
	g := st.h[x.gobj].(*StructV)
	n := &StructV{F: append([]Value{}, g.F...)}
	n.F[i] = v
	st.h[x.gobj] = n
}

func (x *Exec) bump(arr, idx *Term) *Term {
	b := x.b
	return b.Store(arr, idx, b.Bin("bvadd", b.Select(arr, idx), b.Const(arr.S.E.W, 1)))
}

// logAccess appends to the ordered access log, building the code exactly as
// the spec's vsRdCode/vsWrCode/vsInCode/vsOutCode do.
func (x *Exec) logAccess(st *State, kind uint64, a, v *Term) {
	if _, ok := x.ld.ghostField["Log"]; !ok {
		return
	}
	b := x.b
	code := b.Bin("bvor", b.Const(32, kind<<24), b.Bin("bvshl", b.ZExt(32, a), b.Const(32, 8)))
	if v != nil {
		code = b.Bin("bvor", code, b.ZExt(32, v))
	}
	n := x.ghostGet(st, "LogN")
	x.ghostSet(st, "Log", b.Store(x.ghostGet(st, "Log"), n, code))
	x.ghostSet(st, "LogN", b.Bin("bvadd", n, b.Const(8, 1)))
}

// key24 mirrors the spec's  uint32(a)<<8 | uint32(v)  indexing a [1<<24] array.
func (x *Exec) key24(a, v *Term) *Term {
	b := x.b
	return b.Extract(23, 0, b.Bin("bvor", b.Bin("bvshl", b.ZExt(32, a), b.Const(32, 8)), b.ZExt(32, v)))
}

// key16 mirrors  uint16(p)<<8 | uint16(v).
func (x *Exec) key16(p, v *Term) *Term {
	b := x.b
	return b.Bin("bvor", b.Bin("bvshl", b.ZExt(16, p), b.Const(16, 8)), b.ZExt(16, v))
}

func (x *Exec) invoke(recv *IfaceV, m *types.Func, args []Value, st *State, pc *Term) Value {
	name := m.Name()
	if recv.AltC != nil {
		// every possible dynamic value under its guard; outcomes merged
		b := x.b
		var outH Heap
		var outV Value
		first := true
		for _, lf := range x.ifaceLeaves(recv, b.True(), nil) {
			g := b.And(pc, lf.g)
			if g.Op == "false" {
				continue
			}
			sub := &State{h: st.h.clone(), defers: st.defers, facts: st.facts}
			rv := x.invoke(lf.v, m, args, sub, g)
			if first {
				outH, outV, first = sub.h, rv, false
				continue
			}
			x.curHeapForStr = outH
			x.curHeapA, x.curHeapB = sub.h, outH
			nh := make(Heap, len(outH))
			for o, v := range sub.h {
				if ov, ok := outH[o]; ok {
					nh[o] = x.iteV(lf.g, v, ov)
				} else {
					nh[o] = v
				}
			}
			if rv != nil && outV != nil {
				outV = x.iteV(lf.g, rv, outV)
			}
			for o, v := range x.pendingObjs {
				nh[o] = v
				delete(x.pendingObjs, o)
			}
			for o, v := range outH {
				if _, ok := nh[o]; !ok {
					nh[o] = v
				}
			}
			outH = nh
		}
		if first {
			return nil
		}
		st.h = outH
		return outV
	}
	if recv.Dyn != nil {
		fn := x.ld.prog.LookupMethod(recv.DynT, m.Pkg(), name)
		if fn == nil {
			unsupported("method %s not found on %v", name, recv.DynT)
		}
		return x.callFn(fn, nil, append([]Value{recv.Dyn}, args...), st, pc)
	}
	if recv.Opaque == "" {
		// definitely nil: obligation already recorded; produce an arbitrary result
		sig := m.Type().(*types.Signature)
		if sig.Results().Len() == 0 {
			return nil
		}
		return x.symV(sig.Results().At(0).Type(), x.b.Fresh("nilcall", BoolS()).Name, st.h)
	}
	if x.gobj != nil {
		switch name {
		case "Get":
			if len(args) == 1 {
				a := args[0].(*Term)
				x.ghostSet(st, "Rd", x.bump(x.ghostGet(st, "Rd"), a))
				x.logAccess(st, 1, a, nil)
				mem := x.ghostGet(st, "Mem")
				x.noteSelect(mem, a)
				return x.sel(mem, a)
			}
		case "Set":
			if len(args) == 2 {
				a, v := args[0].(*Term), args[1].(*Term)
				x.ghostSet(st, "Mem", x.b.Store(x.ghostGet(st, "Mem"), a, v))
				x.ghostSet(st, "Wr", x.bump(x.ghostGet(st, "Wr"), x.key24(a, v)))
				x.logAccess(st, 2, a, v)
				return nil
			}
		case "In":
			if len(args) == 1 {
				p := args[0].(*Term)
				x.ghostSet(st, "PIn", x.bump(x.ghostGet(st, "PIn"), p))
				x.logAccess(st, 3, p, nil)
				iv := x.ghostGet(st, "InVal")
				x.noteSelect(iv, p)
				return x.sel(iv, p)
			}
		case "Out":
			if len(args) == 2 {
				p, v := args[0].(*Term), args[1].(*Term)
				x.ghostSet(st, "POut", x.bump(x.ghostGet(st, "POut"), x.key16(p, v)))
				x.logAccess(st, 4, p, v)
				return nil
			}
		case "RETNHandle":
			x.ghostSet(st, "Retn", x.b.Bin("bvadd", x.ghostGet(st, "Retn"), x.b.Const(8, 1)))
			return nil
		case "RETIHandle":
			x.ghostSet(st, "Reti", x.b.Bin("bvadd", x.ghostGet(st, "Reti"), x.b.Const(8, 1)))
			return nil
		}
	}
	if name == "Write" && len(args) == 1 && x.gobj != nil {
		if _, ok := x.ld.ghostField2(x, "Con"); ok {
			// io.Writer contract (assumed): Write(p) appends all of p to the stream
			x.usedStub("io.Writer.Write (appends all of p; assumed)")
			p := args[0].(*SliceV)
			if !isC(p.Len) || p.Len.Val > 16 {
				unsupported("console write of symbolic length")
			}
			arr := x.readArr(st, p.Obj, p.Path)
			con, n := x.ghostGet2(st, "Con"), x.ghostGet2(st, "ConN")
			for k := uint64(0); k < p.Len.Val; k++ {
				v := x.sel(arr, x.adaptIdx(arr, x.b.Bin("bvadd", p.Off, x.b.Const(64, k))))
				con = x.b.Ite(pc, x.b.Store(con, n, v), con)
				n = x.b.Ite(pc, x.b.Bin("bvadd", n, x.b.Const(n.S.W, 1)), n)
			}
			x.ghostSet2(st, "Con", con)
			x.ghostSet2(st, "ConN", n)
			return &TupleV{E: []Value{p.Len, &IfaceV{Nil: x.b.Fresh("write_err_isnil", BoolS()), Opaque: "write.err", T: nil}}}
		}
	}
	if x.invokeHook != nil {
		if r, ok := x.invokeHook(x, recv, name, args, st, pc); ok {
			return r
		}
	}
	if recv.T != nil && recv.T.String() == "context.Context" {
		// assumed contract of a user-supplied context: Done() is a channel that
		// is closed at some point or never; Err() is non-nil exactly once it is
		// closed, and stays so ("done" only ever turns true)
		switch name {
		case "Done":
			x.usedStub("context.Context.Done/Err (Err() != nil iff Done() is closed; monotone; assumed)")
			return &OpaqueV{T: m.Type().(*types.Signature).Results().At(0).Type(), Name: "done:" + recv.Opaque}
		case "Err":
			x.usedStub("context.Context.Done/Err (Err() != nil iff Done() is closed; monotone; assumed)")
			d := x.b.Fresh("ctx_done", BoolS())
			if prev := x.ctxDone[recv.Opaque]; prev != nil {
				x.assume(x.b.Implies(x.b.And(pc, prev), d))
			}
			if x.ctxDone == nil {
				x.ctxDone = map[string]*Term{}
			}
			x.ctxDone[recv.Opaque] = d
			return &IfaceV{Nil: x.b.Not(d), Opaque: "ctx.Err()", T: m.Type().(*types.Signature).Results().At(0).Type()}
		}
	}
	unsupported("call of %s on an opaque %v", name, recv.T)
	return nil
}

// copyArr returns dstArr with n elements of srcArr (from srcOff) stored at
// dOff…; dLen bounds the destination window (for the guarded small-window form).
func (x *Exec) copyArr(dstArr, dOff, dLen, n, srcArr, srcOff *Term) *Term {
	b := x.b
	var res *Term
	if isC(n) && n.Val <= 64 {
		// element-wise, exact (reads happen before writes: memmove semantics)
		var vs []*Term
		for k := uint64(0); k < n.Val; k++ {
			si := x.adaptIdx(srcArr, b.Bin("bvadd", srcOff, b.Const(64, k)))
			vs = append(vs, b.Select(srcArr, si))
		}
		res = dstArr
		for k := uint64(0); k < n.Val; k++ {
			di := x.adaptIdx(dstArr, b.Bin("bvadd", dOff, b.Const(64, k)))
			res = b.Store(res, di, vs[k])
		}
	} else if isC(dLen) && dLen.Val <= 16 {
		// small destination, symbolic count: guarded element-wise copy
		res = dstArr
		for k := uint64(0); k < dLen.Val; k++ {
			si := x.adaptIdx(srcArr, b.Bin("bvadd", srcOff, b.Const(64, k)))
			di := x.adaptIdx(dstArr, b.Bin("bvadd", dOff, b.Const(64, k)))
			res = b.Store(res, di, b.Ite(b.Cmp("bvult", b.Const(64, k), n), b.Select(srcArr, si), b.Select(dstArr, di)))
		}
	} else {
		// quantified built-in contract: fresh array R with
		//   forall i. R[i] = (doff <= i < doff+n) ? src[soff + (i-doff)] : dst[i]
		R := b.Fresh("copyres", dstArr.S)
		iw := dstArr.S.I.W
		i := b.BoundVar("i", BV(iw))
		i64 := b.ZExt(64, i)
		rel := b.Bin("bvsub", i64, dOff)
		in := b.And(b.Cmp("bvule", dOff, i64), b.Cmp("bvult", rel, n))
		sidx := x.adaptIdx(srcArr, b.Bin("bvadd", srcOff, rel))
		body := b.Eq(b.Select(R, i), b.Ite(in, b.Select(srcArr, sidx), b.Select(dstArr, i)))
		x.assume(b.Forall([]*Term{i}, body))
		res = R
	}
	return res
}

// bytesBuffer: assumed contract of bytes.Buffer used write-only (Write,
// WriteByte, WriteString append; Bytes/Len/String observe; Grow reserves; Reset
// empties; writes never fail).  The contents live in the buffer's own `buf`
// field as a slice over one array that is never reallocated (capacity is not
// observable through these methods).
func (x *Exec) bytesBuffer(method string, callee *ssa.Function, args []Value, st *State, pc *Term) (Value, bool) {
	b := x.b
	recv, ok := args[0].(*PtrV)
	if !ok || recv.Obj == nil || recv.AltC != nil {
		return nil, false
	}
	sv, ok := x.getPath(st.h[recv.Obj], recv.Path).(*StructV)
	if !ok || len(sv.F) < 2 {
		return nil, false
	}
	cur, ok := sv.F[0].(*SliceV)
	off, ok2 := sv.F[1].(*Term)
	if !ok || !ok2 {
		return nil, false
	}
	x.usedStub("bytes.Buffer (append-only use: Write/WriteByte/WriteString/Bytes/Len/Grow/Reset; writes never fail; assumed)")
	nilErr := func() Value {
		return &IfaceV{Nil: b.True(), T: types.Universe.Lookup("error").Type()}
	}
	put := func(ns *SliceV, noff *Term) {
		n := &StructV{F: append([]Value{}, sv.F...)}
		n.F[0], n.F[1] = ns, noff
		st.h[recv.Obj] = x.setPath(st.h[recv.Obj], recv.Path, n)
	}
	appendBytes := func(tArr, tOff, tLen *Term) {
		if cur.Obj == nil {
			o := x.newObj("bytes.Buffer", nil)
			st.h[o] = b.ConstArr(Arr(BV(64), BV(8)), b.Const(8, 0))
			cur = &SliceV{Obj: o, Off: b.Const(64, 0), Len: b.Const(64, 0), Cap: b.Const(64, 1<<40)}
		}
		arr := x.readArr(st, cur.Obj, cur.Path)
		if tArr != nil {
			arr = x.copyArr(arr, b.Bin("bvadd", cur.Off, cur.Len), tLen, tLen, tArr, tOff)
			st.h[cur.Obj] = x.setPath(st.h[cur.Obj], cur.Path, arr)
		}
		cur = &SliceV{Obj: cur.Obj, Path: cur.Path, Off: cur.Off, Len: b.Bin("bvadd", cur.Len, tLen), Cap: cur.Cap}
		put(cur, off)
	}
	switch method {
	case "Write":
		p := args[1].(*SliceV)
		var tArr *Term
		if p.Obj != nil {
			tArr = x.readArr(st, p.Obj, p.Path)
		}
		appendBytes(tArr, p.Off, p.Len)
		return &TupleV{E: []Value{p.Len, nilErr()}}, true
	case "WriteString":
		sv2 := args[1].(*StrV)
		appendBytes(x.strArr(sv2), b.Const(64, 0), sv2.Len)
		return &TupleV{E: []Value{sv2.Len, nilErr()}}, true
	case "WriteByte":
		c := args[1].(*Term)
		one := b.Store(b.ConstArr(Arr(BV(64), BV(8)), b.Const(8, 0)), b.Const(64, 0), c)
		appendBytes(one, b.Const(64, 0), b.Const(64, 1))
		return nilErr(), true
	case "Grow":
		x.oblige("negative-grow", pc, b.Not(b.Cmp("bvslt", args[1].(*Term), b.Const(64, 0))))
		return nil, true
	case "Len":
		return b.Bin("bvsub", cur.Len, off), true
	case "Bytes":
		if cur.Obj == nil {
			return cur, true
		}
		return &SliceV{Obj: cur.Obj, Path: cur.Path, Off: b.Bin("bvadd", cur.Off, off), Len: b.Bin("bvsub", cur.Len, off), Cap: b.Bin("bvsub", cur.Cap, off)}, true
	case "Reset":
		put(&SliceV{Obj: cur.Obj, Path: cur.Path, Off: cur.Off, Len: b.Const(64, 0), Cap: cur.Cap}, b.Const(64, 0))
		return nil, true
	}
	return nil, false
}

type mapLen struct{ n, pres *Term }

// ------------------------------------------------------------ builtins

func (x *Exec) readArr(st *State, obj *Object, path []PE) *Term {
	return x.getPath(st.h[obj], path).(*Term)
}

func (x *Exec) builtin(name string, call *ssa.CallCommon, args []Value, st *State, pc *Term) Value {
	b := x.b
	switch name {
	case "len":
		switch a := args[0].(type) {
		case *SliceV:
			return a.Len
		case *StrV:
			return a.Len
		case *MapV:
			// partial specification of len on maps: non-negative, and zero exactly
			// for a nil or empty map
			n := b.Fresh("maplen", BV(64))
			x.assume(b.Implies(pc, b.Not(b.Cmp("bvslt", n, b.Const(64, 0)))))
			if a.Obj == nil {
				return b.Const(64, 0)
			}
			ks, _ := mapObjSorts(a.T)
			pres := st.h[a.Obj].(*StructV).F[0].(*Term)
			kk := b.BoundVar("k", ks)
			empty := b.Or(x.mapNil(a), b.Forall([]*Term{kk}, b.Not(b.Select(pres, kk))))
			x.assume(b.Implies(pc, b.Eq(b.Eq(n, b.Const(64, 0)), empty)))
			// maps with the same key set have the same length
			eff := b.Ite(x.mapNil(a), b.ConstArr(Arr(ks, BoolS()), b.False()), pres)
			for _, o := range x.mapLens {
				if o.pres.S.String() == eff.S.String() {
					x.assume(b.Implies(pc, b.Implies(b.Eq(o.pres, eff), b.Eq(o.n, n))))
					// finite sets: a subset of equal size is the whole set
					k1, k2 := b.BoundVar("fs", ks), b.BoundVar("ft", ks)
					sub1 := b.Forall([]*Term{k1}, b.Implies(b.Select(o.pres, k1), b.Select(eff, k1)))
					sub2 := b.Forall([]*Term{k2}, b.Implies(b.Select(eff, k2), b.Select(o.pres, k2)))
					x.assume(b.Implies(pc, b.Implies(b.And(b.Eq(o.n, n), b.Or(sub1, sub2)), b.Eq(o.pres, eff))))
				}
			}
			x.mapLens = append(x.mapLens, mapLen{n, eff})
			return n
		case *Term:
			if at, ok := call.Args[0].Type().Underlying().(*types.Array); ok {
				return b.Const(64, uint64(at.Len()))
			}
		}
	case "cap":
		if a, ok := args[0].(*SliceV); ok {
			return a.Cap
		}
	case "copy":
		dst := args[0].(*SliceV)
		var srcArr *Term
		var srcOff, srcLen *Term
		switch s := args[1].(type) {
		case *SliceV:
			srcOff, srcLen = s.Off, s.Len
			if s.Obj != nil {
				srcArr = x.readArr(st, s.Obj, s.Path)
			}
		case *StrV:
			srcOff, srcLen = b.Const(64, 0), s.Len
			if s.Known {
				a := b.ConstArr(Arr(BV(64), BV(8)), b.Const(8, 0))
				for k := 0; k < len(s.S); k++ {
					a = b.Store(a, b.Const(64, uint64(k)), b.Const(8, uint64(s.S[k])))
				}
				srcArr = a
			} else {
				srcArr = st.h[s.Obj].(*Term)
			}
		default:
			unsupported("copy from %T", args[1])
		}
		n := b.Ite(b.Cmp("bvslt", dst.Len, srcLen), dst.Len, srcLen)
		if dst.Obj == nil || srcArr == nil {
			return n
		}
		dstArr := x.readArr(st, dst.Obj, dst.Path)
		res := x.copyArr(dstArr, dst.Off, dst.Len, n, srcArr, srcOff)
		st.h[dst.Obj] = x.setPath(st.h[dst.Obj], dst.Path, res)
		return n
	case "append":
		s := args[0].(*SliceV)
		if len(args) == 1 {
			return s
		}
		var tArr, tOff, tLen *Term
		switch t := args[1].(type) {
		case *SliceV:
			tOff, tLen = t.Off, t.Len
			if t.Obj != nil {
				tArr = x.readArr(st, t.Obj, t.Path)
			}
		case *StrV:
			tOff, tLen = b.Const(64, 0), t.Len
			tArr = x.strArr(t)
		default:
			unsupported("append of %T", args[1])
		}
		et := call.Args[0].Type().Underlying().(*types.Slice).Elem()
		es := sortOf(et)
		if es == nil {
			unsupported("append to []%v", et)
		}
		if isC(tLen) && tLen.Val == 0 {
			return s
		}
		if tArr == nil {
			tArr = b.ConstArr(Arr(BV(64), es), x.zeroV(et).(*Term))
		}
		newLen := b.Bin("bvadd", s.Len, tLen)
		x.oblige("append-size", pc, b.Cmp("bvsle", newLen, b.Const(64, 1<<40)))
		inPlace := b.False()
		if s.Obj != nil {
			inPlace = b.Cmp("bvsle", newLen, s.Cap)
		}
		var resA, resB *SliceV
		var arrA *Term
		if inPlace.Op != "false" {
			// enough capacity: the elements land in the backing array of s
			sArr := x.readArr(st, s.Obj, s.Path)
			arrA = x.copyArr(sArr, b.Bin("bvadd", s.Off, s.Len), tLen, tLen, tArr, tOff)
			resA = &SliceV{Obj: s.Obj, Path: s.Path, Off: s.Off, Len: newLen, Cap: s.Cap}
		}
		if inPlace.Op != "true" {
			// reallocation: a new array with the old elements followed by the new
			// ones; its capacity is whatever the runtime chooses (>= the length)
			na := b.ConstArr(Arr(BV(64), es), x.zeroV(et).(*Term))
			if s.Obj != nil {
				na = x.copyArr(na, b.Const(64, 0), s.Len, s.Len, x.readArr(st, s.Obj, s.Path), s.Off)
			}
			na = x.copyArr(na, s.Len, tLen, tLen, tArr, tOff)
			o := x.newObj("append", nil)
			st.h[o] = na
			x.seq++
			cp := b.Fresh("appendcap", BV(64))
			x.assume(b.Implies(pc, b.And(b.Cmp("bvsle", newLen, cp), b.Cmp("bvsle", cp, b.Const(64, 1<<41)))))
			resB = &SliceV{Obj: o, Off: b.Const(64, 0), Len: newLen, Cap: cp}
		}
		switch {
		case resB == nil:
			st.h[s.Obj] = x.setPath(st.h[s.Obj], s.Path, arrA)
			return resA
		case resA == nil:
			return resB
		}
		// capacity not known: either, depending on it
		old := x.readArr(st, s.Obj, s.Path)
		st.h[s.Obj] = x.setPath(st.h[s.Obj], s.Path, b.Ite(inPlace, arrA, old))
		x.curHeapForStr = st.h
		x.curHeapA, x.curHeapB = st.h, st.h
		// (the in-place alternative reads the updated array)
		r := x.iteV(inPlace, resA, resB)
		for o, v := range x.pendingObjs {
			st.h[o] = v
			delete(x.pendingObjs, o)
		}
		return r
	case "clear":
		switch m := args[0].(type) {
		case *MapV:
			if m.Obj == nil {
				return nil
			}
			mv := st.h[m.Obj].(*StructV)
			st.h[m.Obj] = &StructV{F: []Value{b.ConstArr(mv.F[0].(*Term).S, b.False()), mv.F[1]}}
			return nil
		case *SliceV:
			if m.Obj == nil {
				return nil
			}
			arr := x.readArr(st, m.Obj, m.Path)
			zero := b.ConstArr(arr.S, b.Const(arr.S.E.W, 0))
			if arr.S.E.K == 'b' {
				zero = b.ConstArr(arr.S, b.False())
			}
			res := x.copyArr(arr, m.Off, m.Len, m.Len, zero, b.Const(64, 0))
			st.h[m.Obj] = x.setPath(st.h[m.Obj], m.Path, res)
			return nil
		}
	case "delete":
		m := args[0].(*MapV)
		if m.Obj == nil {
			return nil
		}
		mv := st.h[m.Obj].(*StructV)
		k := args[1].(*Term)
		st.h[m.Obj] = &StructV{F: []Value{b.Store(mv.F[0].(*Term), k, b.False()), mv.F[1]}}
		return nil
	case "print", "println":
		return nil
	}
	unsupported("builtin %s on %T", name, args[0])
	return nil
}

// ------------------------------------------------------------ stubs

// stub gives the assumed contracts of external functions (all listed in the
// evidence as assumptions).
// constString / constInt: the Go value of a fully known argument.
func constString(v Value) (string, bool) {
	s, ok := v.(*StrV)
	if ok && s.Known {
		return s.S, true
	}
	return "", false
}

func constInt(v Value) (int64, bool) {
	t, ok := v.(*Term)
	if ok && isC(t) {
		return sext64(t.Val, t.S.W), true
	}
	return 0, false
}

// foldPure: pure functions of package strings / strconv applied to constants
// are evaluated by the very library function (ground obligations such as the
// exerciser tables of C17 run package initialisers that may use them).
func (x *Exec) foldPure(fn string, args []Value) (Value, bool) {
	b := x.b
	str := func(s string) Value { return &StrV{Known: true, S: s, Len: b.Const(64, uint64(len(s)))} }
	var ss []string
	var is []int64
	for _, a := range args {
		if s, ok := constString(a); ok {
			ss = append(ss, s)
		} else if n, ok := constInt(a); ok {
			is = append(is, n)
		} else {
			return nil, false
		}
	}
	switch {
	case fn == "strings.ReplaceAll" && len(ss) == 3:
		return str(strings.ReplaceAll(ss[0], ss[1], ss[2])), true
	case fn == "strings.Replace" && len(ss) == 3 && len(is) == 1:
		return str(strings.Replace(ss[0], ss[1], ss[2], int(is[0]))), true
	case fn == "strings.ToUpper" && len(ss) == 1:
		return str(strings.ToUpper(ss[0])), true
	case fn == "strings.ToLower" && len(ss) == 1:
		return str(strings.ToLower(ss[0])), true
	case fn == "strings.TrimSpace" && len(ss) == 1:
		return str(strings.TrimSpace(ss[0])), true
	case fn == "strings.Trim" && len(ss) == 2:
		return str(strings.Trim(ss[0], ss[1])), true
	case fn == "strings.TrimLeft" && len(ss) == 2:
		return str(strings.TrimLeft(ss[0], ss[1])), true
	case fn == "strings.TrimRight" && len(ss) == 2:
		return str(strings.TrimRight(ss[0], ss[1])), true
	case fn == "strings.TrimPrefix" && len(ss) == 2:
		return str(strings.TrimPrefix(ss[0], ss[1])), true
	case fn == "strings.TrimSuffix" && len(ss) == 2:
		return str(strings.TrimSuffix(ss[0], ss[1])), true
	case fn == "strings.Repeat" && len(ss) == 1 && len(is) == 1 && is[0] >= 0 && is[0] < 1<<16:
		return str(strings.Repeat(ss[0], int(is[0]))), true
	case fn == "strings.Contains" && len(ss) == 2:
		return b.Bool(strings.Contains(ss[0], ss[1])), true
	case fn == "strings.HasPrefix" && len(ss) == 2:
		return b.Bool(strings.HasPrefix(ss[0], ss[1])), true
	case fn == "strings.HasSuffix" && len(ss) == 2:
		return b.Bool(strings.HasSuffix(ss[0], ss[1])), true
	case fn == "strings.Index" && len(ss) == 2:
		return b.Const(64, uint64(int64(strings.Index(ss[0], ss[1])))), true
	case fn == "strings.Count" && len(ss) == 2:
		return b.Const(64, uint64(int64(strings.Count(ss[0], ss[1])))), true
	case fn == "strconv.Itoa" && len(is) == 1 && len(ss) == 0:
		return str(strconv.Itoa(int(is[0]))), true
	}
	return nil, false
}

func (x *Exec) stub(callee *ssa.Function, args []Value, st *State, pc *Term) (Value, bool) {
	b := x.b
	fn := fullName(callee)
	if strings.HasPrefix(fn, "strings.") || strings.HasPrefix(fn, "strconv.") {
		if v, ok := x.foldPure(fn, args); ok {
			return v, true
		}
	}
	if (strings.HasPrefix(fn, "math/bits.") && fn != "math/bits.OnesCount8" && fn != "math/bits.OnesCount16" ||
		strings.HasPrefix(fn, "encoding/binary.(littleEndian).") || strings.HasPrefix(fn, "encoding/binary.(bigEndian).")) && callee.Blocks != nil {
		// pure functions over machine integers and constant tables: the library's
		// own body is executed (no model, nothing assumed)
		rv, rst := x.run(callee, args, &State{h: st.h, facts: st.facts}, pc)
		st.h = rst.h
		return rv, true
	}
	if strings.HasPrefix(fn, "bytes.(*Buffer).") {
		if v, ok := x.bytesBuffer(strings.TrimPrefix(fn, "bytes.(*Buffer)."), callee, args, st, pc); ok {
			return v, true
		}
	}
	switch fn {
	case "math/bits.OnesCount8", "math/bits.OnesCount16":
		if x.realStdlib[fn] {
			// the obligation "this model equals the real function" executes the real body
			rv, rst := x.run(callee, args, &State{h: st.h, facts: st.facts}, pc)
			st.h = rst.h
			return rv, true
		}
		x.usedModel(fn)
		t := args[0].(*Term)
		sum := b.Const(64, 0)
		for k := 0; k < t.S.W; k++ {
			sum = b.Bin("bvadd", sum, b.ZExt(64, b.Extract(k, k, t)))
		}
		return sum, true
	case "flag.StringVar", "flag.UintVar", "flag.BoolVar", "flag.IntVar", "flag.Parse":
		// the flag variables hold arbitrary values of their type (they are
		// package-level variables whose address escapes: havocked by initPackage)
		x.usedStub("flag.*Var / flag.Parse (variables hold arbitrary values afterwards)")
		return nil, true
	case "os.ReadFile":
		x.usedStub(fn + " (returns an arbitrary byte slice or an error)")
		x.seq++
		sl := x.symV(callee.Signature.Results().At(0).Type(), fmt.Sprintf("readfile%d", x.seq), st.h).(*SliceV)
		err := x.osErr(st, pc, "os.ReadFile")
		if _, ok := x.ld.ghostField2(x, "In"); ok {
			x.ghostSetV(st, "In", sl)
		}
		return &TupleV{E: []Value{sl, err}}, true
	case "os.Create", "os.OpenFile":
		x.usedStub(fn + " (returns a file or an error; the file starts empty iff it is created by os.Create or opened with O_TRUNC)")
		o := x.newObj("os.File", nil)
		st.h[o] = &StructV{}
		if _, ok := x.ld.ghostField2(x, "Trunc"); ok {
			tr := b.True()
			if fn == "os.OpenFile" {
				fl := args[1].(*Term)
				tr = b.Not(b.Eq(b.Bin("bvand", fl, b.Const(fl.S.W, 0x200)), b.Const(fl.S.W, 0))) // O_TRUNC
			}
			x.ghostSet2(st, "Trunc", b.Ite(pc, tr, x.ghostGet2(st, "Trunc")))
		}
		return &TupleV{E: []Value{&PtrV{Obj: o}, x.osErr(st, pc, fn)}}, true
	case "os.(*File).Close":
		x.usedStub(fn)
		return &IfaceV{Nil: b.Fresh("close_err_isnil", BoolS()), Opaque: "close.err"}, true
	case "bufio.NewWriter":
		x.usedStub(fn + " (a buffered writer whose content reaches the file on a nil Flush)")
		o := x.newObj("bufio.Writer", nil)
		st.h[o] = &StructV{}
		return &PtrV{Obj: o}, true
	case "bufio.(*Writer).WriteByte":
		x.usedStub(fn + " (appends the byte; a failure makes every later call fail)")
		o := x.newObj("bytechunk", nil)
		st.h[o] = b.Store(b.ConstArr(Arr(BV(64), BV(8)), b.Const(8, 0)), b.Const(64, 0), args[1].(*Term))
		x.appendChunk(st, &SliceV{Obj: o, Off: b.Const(64, 0), Len: b.Const(64, 1), Cap: b.Const(64, 1)}, pc)
		return x.osErr(st, pc, "WriteByte"), true
	case "bufio.(*Writer).Write":
		x.usedStub(fn + " (appends all of p; a failure makes every later call fail)")
		p := args[1].(*SliceV)
		x.appendChunk(st, p, pc)
		return &TupleV{E: []Value{p.Len, x.osErr(st, pc, "Write")}}, true
	case "bufio.(*Writer).Flush":
		x.usedStub(fn)
		return x.osErr(st, pc, "Flush"), true
	case "fmt.Errorf":
		x.usedStub(fn)
		x.seq++
		return &IfaceV{Nil: b.False(), Opaque: fmt.Sprintf("fmt.Errorf#%d", x.seq), T: callee.Signature.Results().At(0).Type()}, true
	case "context.WithCancel":
		x.usedStub(fn)
		if parent, ok := args[0].(*IfaceV); ok {
			x.oblige("nil-context", pc, b.Not(x.ifaceNil(parent))) // WithCancel(nil) panics
		}
		x.seq++
		id := fmt.Sprintf("ctx2#%d", x.seq)
		return &TupleV{E: []Value{&IfaceV{Nil: b.False(), Opaque: id, T: callee.Signature.Results().At(0).Type()}, &StubFnV{Name: "cancel:" + id}}}, true
	case "sync/atomic.LoadInt32":
		x.usedStub(fn)
		return b.Fresh("atomic_load", BV(32)), true // a shared cell: any value
	case "sync/atomic.StoreInt32":
		x.usedStub(fn)
		return nil, true
	case "reflect.DeepEqual":
		// stub (assumption): on two map values DeepEqual is "both nil or both
		// non-nil, same keys, equal values"
		var ms [2]*MapV
		for i := 0; i < 2; i++ {
			iv, ok := args[i].(*IfaceV)
			if !ok || iv.Dyn == nil {
				return nil, false
			}
			m, ok := iv.Dyn.(*MapV)
			if !ok {
				return nil, false
			}
			ms[i] = m
		}
		x.usedStub(fn + " (on maps)")
		ks, vs := mapObjSorts(ms[0].T)
		k := b.BoundVar("k", ks)
		arrs := func(m *MapV) (*Term, *Term) {
			if m.Obj == nil {
				return b.ConstArr(Arr(ks, BoolS()), b.False()), nil
			}
			mv := st.h[m.Obj].(*StructV)
			var v *Term
			if mv.F[1] != nil {
				v = mv.F[1].(*Term)
			}
			return mv.F[0].(*Term), v
		}
		p0, v0 := arrs(ms[0])
		p1, v1 := arrs(ms[1])
		n0, n1 := x.mapNil(ms[0]), x.mapNil(ms[1])
		has0, has1 := b.And(b.Not(n0), b.Select(p0, k)), b.And(b.Not(n1), b.Select(p1, k))
		body := b.Eq(has0, has1)
		if vs != nil && v0 != nil && v1 != nil {
			body = b.And(body, b.Implies(has0, b.Eq(b.Select(v0, k), b.Select(v1, k))))
		}
		return b.And(b.Eq(n0, n1), b.Forall([]*Term{k}, body)), true
	case "log.Printf", "(*log.Logger).Printf", "log.(*Logger).Printf", "log.Println", "log.Print":
		x.usedStub(fn)
		x.logCalls++
		x.countWarn(st, pc)
		return nil, true
	}
	if callee.Pkg != nil && !strings.HasPrefix(callee.Pkg.Pkg.Path(), modPath) && callee.Name() == "init" && callee.Synthetic != "" {
		return nil, true // initialisers of dependencies: not modelled
	}
	if callee.Pkg != nil && callee.Name() == "init" && callee.Synthetic != "" && x.inInit {
		// a package of the module imported by the one being initialised
		x.initPackage(callee.Pkg, st)
		x.inInit = true
		return nil, true
	}
	if fn == "errors.New" {
		x.usedStub(fn)
		id := "errors.New"
		if s, ok := args[0].(*StrV); ok && s.Known {
			id += ":" + s.S
		}
		return &IfaceV{Nil: b.False(), Opaque: id, T: callee.Signature.Results().At(0).Type()}, true
	}
	if callee.Pkg != nil && callee.Pkg.Pkg.Path() == "log" {
		x.usedStub("log.*")
		x.logCalls++
		x.countWarn(st, pc)
		if callee.Signature.Results().Len() == 0 {
			return nil, true
		}
	}
	// effect-free helpers of the module that only log (warnf, invalidCode):
	// skipped as a unit.  Assumption: package log / fmt do not touch modelled state.
	_, countsWarns := x.ld.ghostField2(x, "Warns") // (a package whose ghost counts logger calls: its log-only helpers are executed)
	if callee.Blocks != nil && callee.Signature.Results().Len() == 0 && !countsWarns && x.ld.logOnly(callee) {
		x.usedStub("log-only:" + fnKey(callee))
		x.logCalls++
		return nil, true
	}
	return nil, false
}

func allocRooted(v ssa.Value) bool {
	for {
		switch a := v.(type) {
		case *ssa.Alloc:
			return true
		case *ssa.FieldAddr:
			v = a.X
		case *ssa.IndexAddr:
			v = a.X
		default:
			return false
		}
	}
}

// logOnly: the function stores only into its own allocations and calls only
// log/fmt functions or other log-only functions of the module, and it does
// call at least one of them (so that pure no-ops like oopNOP are not "stubs").
func (ld *Loaded) logOnly(fn *ssa.Function) bool {
	ld.fiMu.Lock()
	if r, ok := ld.logOnlyMemo[fn]; ok {
		ld.fiMu.Unlock()
		return r
	}
	ld.logOnlyMemo[fn] = false // recursion guard
	ld.fiMu.Unlock()
	r := ld.logOnly1(fn)
	ld.fiMu.Lock()
	ld.logOnlyMemo[fn] = r
	ld.fiMu.Unlock()
	return r
}

func (ld *Loaded) logOnly1(fn *ssa.Function) bool {
	logs := false
	for _, blk := range fn.Blocks {
		for _, ins := range blk.Instrs {
			switch i := ins.(type) {
			case *ssa.Store:
				if !allocRooted(i.Addr) {
					return false
				}
			case *ssa.Call:
				if i.Call.IsInvoke() {
					return false
				}
				if _, ok := i.Call.Value.(*ssa.Builtin); ok {
					continue
				}
				c := i.Call.StaticCallee()
				if c == nil || c.Pkg == nil {
					return false
				}
				if p := c.Pkg.Pkg.Path(); p == "log" || p == "fmt" {
					logs = true
					continue
				}
				if c.Blocks != nil && c.Signature.Results().Len() == 0 && ld.logOnly(c) {
					logs = true
					continue
				}
				return false
			case *ssa.Go, *ssa.Defer, *ssa.MapUpdate, *ssa.Send, *ssa.Panic:
				return false
			}
		}
	}
	// no loops
	if len(analyze(fn).headers) > 0 {
		return false
	}
	return logs
}

// usedModel: an external function represented by a model that is itself an
// obligation (proved equal to the real body), not an assumption.
func (x *Exec) usedModel(name string) {
	if x.modelsUsed == nil {
		x.modelsUsed = map[string]bool{}
	}
	x.modelsUsed[name] = true
}

func (x *Exec) usedStub(name string) {
	if x.stubsUsed == nil {
		x.stubsUsed = map[string]bool{}
	}
	x.stubsUsed[name] = true
}

var _ = fmt.Sprintf

// countWarn: a ghost record with a Warns field counts logger calls.
func (x *Exec) countWarn(st *State, pc *Term) {
	if _, ok := x.ld.ghostField2(x, "Warns"); ok && x.inSpec == 0 {
		n := x.ghostGet2(st, "Warns")
		x.ghostSet2(st, "Warns", x.b.Bin("bvadd", n, x.b.Ite(pc, x.b.Const(n.S.W, 1), x.b.Const(n.S.W, 0))))
	}
}

// osErr: the error result of an OS / I/O stub: nil or not; a failure is
// recorded in the ghost flag OSFailed.
func (x *Exec) osErr(st *State, pc *Term, what string) *IfaceV {
	b := x.b
	x.seq++
	isnil := b.Fresh("err_"+sanitize(what)+"_isnil", BoolS())
	if _, ok := x.ld.ghostField2(x, "OSFailed"); ok {
		x.ghostSet2(st, "OSFailed", b.Or(x.ghostGet2(st, "OSFailed"), b.And(pc, b.Not(isnil))))
	}
	return &IfaceV{Nil: isnil, Opaque: fmt.Sprintf("oserr:%s#%d", what, x.seq)}
}

func (x *Exec) ghostSetV(st *State, name string, v Value) {
	i, _ := x.ld.ghostField2(x, name)
	g := st.h[x.gobj].(*StructV)
	n := &StructV{F: append([]Value{}, g.F...)}
	n.F[i] = v
	st.h[x.gobj] = n
}

// appendChunk records a write to the output stream: the chunk list of the
// ghost record (fields C0, C1, …, counter NC) gets a snapshot of the slice.
func (x *Exec) appendChunk(st *State, p *SliceV, pc *Term) {
	if _, ok := x.ld.ghostField2(x, "NC"); !ok {
		unsupported("buffered write without a chunk-list ghost")
	}
	nc := x.underFacts(x.ghostGet2(st, "NC"))
	if !isC(nc) {
		// a value merged at the return of a helper ("one chunk or two were
		// written"): on this path it may still be one constant - ask the solver
		var leaves []*Term
		var walk func(t *Term)
		walk = func(t *Term) {
			if t.Op == "ite" && len(leaves) < 16 {
				walk(t.Args[1])
				walk(t.Args[2])
			} else if isC(t) {
				for _, l := range leaves {
					if l == t {
						return
					}
				}
				leaves = append(leaves, t)
			}
		}
		walk(nc)
		for _, k := range leaves {
			if x.infeasible(x.b.And(pc, x.b.Not(x.b.Eq(nc, k)))) {
				nc = k
				break
			}
		}
	}
	if !isC(nc) {
		if os.Getenv("VERIF_DEBUG_NC") != "" {
			fmt.Printf("DEBUG NC = %s\n", dumpTerm(nc, 8))
			for k, v := range x.curFacts {
				fmt.Printf("DEBUG fact %s = %s\n", dumpTerm(k, 4), dumpTerm(v, 1))
			}
		}
		unsupported("output chunk counter is not a constant on this path (a write inside a loop or a join?)")
	}
	name := fmt.Sprintf("C%d", nc.Val)
	if _, ok := x.ld.ghostField2(x, name); !ok {
		unsupported("more output chunks than the ghost record has fields")
	}
	snap := x.newObj("chunk:"+name, nil)
	if p.Obj != nil {
		arr := x.readArr(st, p.Obj, p.Path)
		if arr.S.I.W != 64 {
			// a view of a fixed-size array: copy the (constantly many) elements
			if !isC(p.Len) || !isC(p.Off) || p.Len.Val > 256 {
				unsupported("write of a symbolic part of a fixed-size array")
			}
			na := x.b.ConstArr(Arr(BV(64), arr.S.E), x.b.Const(arr.S.E.W, 0))
			for i := uint64(0); i < p.Len.Val; i++ {
				na = x.b.Store(na, x.b.Const(64, i), x.sel(arr, x.adaptIdx(arr, x.b.Const(64, p.Off.Val+i))))
			}
			st.h[snap] = na
			x.ghostSetV(st, name, &SliceV{Obj: snap, Off: x.b.Const(64, 0), Len: p.Len, Cap: p.Len})
			x.ghostSet2(st, "NC", x.b.Const(nc.S.W, nc.Val+1))
			return
		}
		st.h[snap] = arr
	} else {
		st.h[snap] = x.b.ConstArr(Arr(BV(64), BV(8)), x.b.Const(8, 0))
	}
	x.ghostSetV(st, name, &SliceV{Obj: snap, Off: p.Off, Len: p.Len, Cap: p.Len})
	x.ghostSet2(st, "NC", x.b.Const(nc.S.W, nc.Val+1))
}
