package main

// Generic replay of a counterexample to a function contract: the generated
// test rebuilds the arguments from the model, calls the real function and
// evaluates the compiled ensures predicates concretely on the real pre-/post-
// state (run-time assertion checking of the violated clause).

import (
	"fmt"
	"go/types"
	"sort"
	"strings"
)

// addArgValues requests the model values of every scalar part of the arguments.
func (x *Exec) addArgValues(q *Query, c *Contract, args []Value, pre Heap) {
	b := x.b
	var walk func(v Value, name string)
	walk = func(v Value, name string) {
		switch u := v.(type) {
		case *Term:
			if u.S.K != 'a' {
				q.Values = append(q.Values, NamedTerm{"arg:" + name, u})
			}
		case *StructV:
			for i, f := range u.F {
				walk(f, fmt.Sprintf("%s.%d", name, i))
			}
		case *PtrV:
			if u.Obj != nil {
				if pv, ok := pre[u.Obj]; ok {
					walk(x.getPath(pv, u.Path), name+"*")
				}
			}
		case *SliceV:
			q.Values = append(q.Values, NamedTerm{"arg:" + name + "#len", u.Len})
			q.Prefer = append(q.Prefer, b.Not(b.Cmp("bvult", b.Const(64, 0x11000), u.Len)))
			if u.Obj != nil {
				if arr, ok := x.getPath(pre[u.Obj], u.Path).(*Term); ok {
					for k := 0; k < 16; k++ {
						q.Values = append(q.Values, NamedTerm{fmt.Sprintf("arg:%s[%d]", name, k), b.Select(arr, x.adaptIdx(arr, b.Bin("bvadd", u.Off, b.Const(64, uint64(k)))))})
					}
					// cells the VC read
					r := arr
					for r.Op == "store" {
						r = r.Args[0]
					}
					if r.Op == "var" {
						for k, ix := range x.reads[r.Name] {
							q.Values = append(q.Values, NamedTerm{fmt.Sprintf("argcell:%s:%d:idx", name, k), ix})
							q.Values = append(q.Values, NamedTerm{fmt.Sprintf("argcell:%s:%d:val", name, k), b.Select(arr, ix)})
						}
					}
				}
			}
		case *IfaceV:
			// an opaque interface argument: which of the asserted dynamic types it
			// has in the model, and that value
			if u.Opaque == "" || u.AltC != nil {
				return
			}
			q.Values = append(q.Values, NamedTerm{"arg:" + name + "#nil", x.ifaceNil(u)})
			for key, m := range x.asserts {
				if !strings.HasPrefix(key, u.Opaque+"|") {
					continue
				}
				tn := strings.TrimPrefix(key, u.Opaque+"|")
				q.Values = append(q.Values, NamedTerm{"argis:" + name + ":" + tn, m[0].(*Term)})
				if c.ifaceTypes == nil {
					c.ifaceTypes = map[string]types.Type{}
				}
				c.ifaceTypes[name+":"+tn] = x.assertTypes[key]
				walk(m[1], name+"!"+tn)
			}
		case *MapV:
			q.Values = append(q.Values, NamedTerm{"arg:" + name + "#nil", x.mapNil(u)})
			if u.Obj != nil {
				mvv, okk := pre[u.Obj]
				if !okk {
					mvv = x.assertHeap[u.Obj]
				}
				if mv, ok := mvv.(*StructV); ok {
					pres := mv.F[0].(*Term)
					r := pres
					for r.Op == "store" {
						r = r.Args[0]
					}
					if r.Op == "var" {
						// prefer a model whose map has no entries besides the cells the
						// obligation reads (those are all the replay can rebuild)
						if ks, _ := mapObjSorts(u.T); ks != nil && len(x.reads[r.Name]) > 0 {
							kk := b.BoundVar("mk", ks)
							in := b.False()
							for _, ix := range x.reads[r.Name] {
								in = b.Or(in, b.Eq(kk, ix))
							}
							q.Prefer = append(q.Prefer, b.Forall([]*Term{kk}, b.Implies(b.Select(pres, kk), in)))
							// ... and then len(m) is the number of distinct read cells present
							eff := b.Ite(x.mapNil(u), b.ConstArr(Arr(ks, BoolS()), b.False()), pres)
							cnt := b.Const(64, 0)
							rs := x.reads[r.Name]
							for i, ix := range rs {
								c := b.And(b.Not(x.mapNil(u)), b.Select(pres, ix))
								for _, jx := range rs[:i] {
									c = b.And(c, b.Not(b.Eq(jx, ix)))
								}
								cnt = b.Bin("bvadd", cnt, b.Ite(c, b.Const(64, 1), b.Const(64, 0)))
							}
							for _, ml := range x.mapLens {
								if ml.pres == eff {
									q.Prefer = append(q.Prefer, b.Eq(ml.n, cnt))
								}
							}
						}
						for k, ix := range x.reads[r.Name] {
							q.Values = append(q.Values, NamedTerm{fmt.Sprintf("argmap:%s:%d:key", name, k), ix})
							q.Values = append(q.Values, NamedTerm{fmt.Sprintf("argmap:%s:%d:present", name, k), b.Select(pres, ix)})
							if mv.F[1] != nil {
								q.Values = append(q.Values, NamedTerm{fmt.Sprintf("argmap:%s:%d:val", name, k), b.Select(mv.F[1].(*Term), ix)})
							}
						}
					}
				}
			}
		}
	}
	for i, a := range args {
		walk(a, c.Params[i].Name)
	}
}

func typeSrc(t types.Type, pkg *types.Package) string {
	return types.TypeString(t, func(p *types.Package) string {
		if p == pkg {
			return ""
		}
		return p.Name()
	})
}

// genFuncReplay writes one replay case for a contract counterexample.
func (ld *Loaded) genFuncReplay(c *Contract, model map[string]uint64, failed []string, idx int) (string, bool) {
	var sb strings.Builder
	pkg := c.Fn.Pkg.Pkg
	fmt.Fprintf(&sb, "func vsReplayCase%d() {\n", idx)
	lit := func(t types.Type, v uint64) string {
		if isBool(t) {
			return fmt.Sprintf("%v", v != 0)
		}
		w, sg := intWidth(t)
		if sg {
			return fmt.Sprintf("%s(%d)", typeSrc(t, pkg), sext64(v, w))
		}
		return fmt.Sprintf("%s(0x%x)", typeSrc(t, pkg), v)
	}
	var setStruct func(t types.Type, goPath, key string)
	setStruct = func(t types.Type, goPath, key string) {
		st := t.Underlying().(*types.Struct)
		for i := 0; i < st.NumFields(); i++ {
			f := st.Field(i)
			k := fmt.Sprintf("%s.%d", key, i)
			gp := goPath + "." + f.Name()
			switch f.Type().Underlying().(type) {
			case *types.Struct:
				setStruct(f.Type(), gp, k)
			case *types.Basic:
				if v, ok := model["arg:"+k]; ok {
					fmt.Fprintf(&sb, "\t%s = %s\n", gp, lit(f.Type(), v))
				}
			}
		}
	}
	// build emits the declarations of variable v (and old_v) of type t from the
	// model entries keyed by key
	var build func(v, key string, t types.Type) bool
	build = func(v, key string, t types.Type) bool {
		ts := typeSrc(t, pkg)
		switch u := t.Underlying().(type) {
		case *types.Basic:
			fmt.Fprintf(&sb, "\t%s := %s\n\t_ = %s\n\told_%s := %s\n\t_ = old_%s\n", v, lit(t, model["arg:"+key]), v, v, v, v)
		case *types.Struct:
			fmt.Fprintf(&sb, "\tvar %s %s\n", v, ts)
			setStruct(t, v, key)
			fmt.Fprintf(&sb, "\told_%s := %s\n", v, v)
		case *types.Pointer:
			if _, ok := u.Elem().Underlying().(*types.Struct); ok {
				fmt.Fprintf(&sb, "\t%s := new(%s)\n", v, typeSrc(u.Elem(), pkg))
				setStruct(u.Elem(), v, key+"*")
				fmt.Fprintf(&sb, "\told_%s := new(%s)\n\t*old_%s = *%s\n", v, typeSrc(u.Elem(), pkg), v, v)
			} else if _, ok := u.Elem().Underlying().(*types.Basic); ok {
				fmt.Fprintf(&sb, "\t%s := new(%s)\n\t*%s = %s\n", v, typeSrc(u.Elem(), pkg), v, lit(u.Elem(), model["arg:"+key+"*"]))
				fmt.Fprintf(&sb, "\told_%s := new(%s)\n\t*old_%s = *%s\n", v, typeSrc(u.Elem(), pkg), v, v)
			} else {
				return false
			}
		case *types.Slice:
			n := sext64(model["arg:"+key+"#len"], 64)
			if n < 0 || n > 1<<20 {
				return false
			}
			fmt.Fprintf(&sb, "\t%s := make(%s, %d)\n", v, ts, n)
			cellsSet := map[uint64]uint64{}
			for k := 0; k < 16 && int64(k) < n; k++ {
				if val, ok := model[fmt.Sprintf("arg:%s[%d]", key, k)]; ok {
					cellsSet[uint64(k)] = val
				}
			}
			for mk, mv := range model {
				if strings.HasPrefix(mk, "argcell:"+key+":") && strings.HasSuffix(mk, ":idx") {
					if val, ok := model[strings.TrimSuffix(mk, ":idx")+":val"]; ok && int64(mv) < n {
						cellsSet[mv] = val
					}
				}
			}
			var ks []uint64
			for k := range cellsSet {
				ks = append(ks, k)
			}
			sort.Slice(ks, func(i, j int) bool { return ks[i] < ks[j] })
			for _, k := range ks {
				fmt.Fprintf(&sb, "\t%s[%d] = 0x%x\n", v, k, cellsSet[k])
			}
			fmt.Fprintf(&sb, "\told_%s := append(%s(nil), %s...)\n", v, ts, v)
		case *types.Map:
			if model["arg:"+key+"#nil"] != 0 {
				fmt.Fprintf(&sb, "\tvar %s %s\n", v, ts)
			} else {
				fmt.Fprintf(&sb, "\t%s := %s{}\n", v, ts)
			}
			var lines []string
			for mk, k := range model {
				if strings.HasPrefix(mk, "argmap:"+key+":") && strings.HasSuffix(mk, ":key") {
					base := strings.TrimSuffix(mk, ":key")
					if model[base+":present"] != 0 && model["arg:"+key+"#nil"] == 0 {
						lines = append(lines, fmt.Sprintf("\t%s[0x%x] = 0x%x\n", v, k, model[base+":val"]))
					}
				}
			}
			sort.Strings(lines)
			sb.WriteString(strings.Join(lines, ""))
			fmt.Fprintf(&sb, "\tvar old_%s %s\n\tif %s != nil {\n\t\told_%s = %s{}\n\t\tfor k, v := range %s {\n\t\t\told_%s[k] = v\n\t\t}\n\t}\n", v, ts, v, v, ts, v, v)
		case *types.Interface:
			// the dynamic type the model chose among those the code asks about
			fmt.Fprintf(&sb, "\tvar %s, old_%s %s\n", v, v, ts)
			if model["arg:"+key+"#nil"] != 0 {
				return true
			}
			var tns []string
			for k := range c.ifaceTypes {
				if strings.HasPrefix(k, key+":") && model["argis:"+k] != 0 {
					tns = append(tns, strings.TrimPrefix(k, key+":"))
				}
			}
			sort.Strings(tns)
			if len(tns) == 0 {
				if it, ok := t.Underlying().(*types.Interface); !ok || it.NumMethods() > 0 {
					return false // (no value of a foreign type at hand that implements it)
				}
				// none of the asserted types: any other value will do
				fmt.Fprintf(&sb, "\t%s, old_%s = struct{ vsOther int }{}, struct{ vsOther int }{}\n", v, v)
				return true
			}
			dt := c.ifaceTypes[key+":"+tns[0]]
			if dt == nil || !build(v+"_dyn", key+"!"+tns[0], dt) {
				return false
			}
			fmt.Fprintf(&sb, "\t%s, old_%s = %s_dyn, old_%s_dyn\n", v, v, v, v)
		default:
			return false
		}
		return true
	}
	var callArgs, predArgs []string
	for i, p := range c.Fn.Params {
		name := c.Params[i].Name
		if !build(name, name, p.Type()) {
			return "", false
		}
		predArgs = append(predArgs, name, "old_"+name)
		if i > 0 || c.Fn.Signature.Recv() == nil {
			if c.Fn.Signature.Variadic() && i == len(c.Fn.Params)-1 {
				callArgs = append(callArgs, name+"...")
			} else {
				callArgs = append(callArgs, name)
			}
		}
	}
	if _, ok := ld.ghostT[pkg.Path()]; !ok {
		return "", false
	}
	sb.WriteString("\tg, old_g := new(VGhost), new(VGhost)\n")
	predArgs = append(predArgs, "g", "old_g")
	var res []string
	rt := c.Fn.Signature.Results()
	for i := 0; i < rt.Len(); i++ {
		fmt.Fprintf(&sb, "\tvar res%d %s\n\t_ = res%d\n", i, typeSrc(rt.At(i).Type(), pkg), i)
		res = append(res, fmt.Sprintf("res%d", i))
	}
	call := c.Fn.Name() + "(" + strings.Join(callArgs, ", ") + ")"
	if c.Fn.Signature.Recv() != nil {
		call = c.Params[0].Name + "." + call
	}
	if len(res) > 0 {
		call = strings.Join(res, ", ") + " = " + call
	}
	// the rebuilt pre-state must satisfy the preconditions (parts of it the
	// harness cannot rebuild - a non-nil io.Writer field ... - make the replay void)
	{
		var pre []string
		for _, a := range predArgs {
			pre = append(pre, a)
		}
		_ = pre
		for i, cl := range c.Requires {
			// requires predicates take (p, old_p, ..., g, old_g): the same values twice
			fmt.Fprintf(&sb, "\tif func() (ok bool) {\n\t\tdefer func() {\n\t\t\tif recover() != nil {\n\t\t\t\tok = false\n\t\t\t}\n\t\t}()\n\t\treturn %s(%s)\n\t}() == false {\n\t\tfmt.Printf(\"REPLAY-VOID requires#%d does not hold on the rebuilt pre-state: %%s\\n\", %q)\n\t\treturn\n\t}\n", cl.FnName, strings.Join(predArgs, ", "), i, cl.Text)
		}
	}
	fmt.Fprintf(&sb, "\tpanicked := false\n\tfunc() {\n\t\tdefer func() {\n\t\t\tif r := recover(); r != nil {\n\t\t\t\tpanicked = true\n\t\t\t\tfmt.Printf(\"REPLAY-PANIC %%v\\n\", r)\n\t\t\t}\n\t\t}()\n\t\t%s\n\t}()\n", call)
	sb.WriteString("\tif !panicked {\n")
	all := append(append([]string{}, predArgs...), res...)
	for i, cl := range c.Ensures {
		if cl.Label == "diff" || cl.Label == "diffalt" {
			continue
		}
		fmt.Fprintf(&sb, "\t\tif !%s(%s) {\n\t\t\tfmt.Printf(\"REPLAY-DIVERGENCE ensures#%d violated on the real code: %%s\\n\", %q)\n\t\t}\n", cl.FnName, strings.Join(all, ", "), i, cl.Text)
	}
	// failed frame conjuncts: the location must be unchanged on the real code too
	pnames := map[string]bool{}
	for _, p := range c.Params {
		pnames[p.Name] = true
	}
	for _, f := range failed {
		if !strings.HasPrefix(f, "frame:") {
			continue
		}
		loc := strings.TrimPrefix(f, "frame:")
		root := loc
		if k := strings.Index(loc, "."); k >= 0 {
			root = loc[:k]
		}
		if !pnames[root] {
			continue
		}
		fmt.Fprintf(&sb, "\t\tif %s != old_%s {\n\t\t\tfmt.Printf(\"REPLAY-DIVERGENCE frame: %s changed from %%v to %%v on the real code\\n\", old_%s, %s)\n\t\t}\n", loc, loc, loc, loc, loc)
	}
	for i := range res {
		fmt.Fprintf(&sb, "\t\tfmt.Printf(\"REPLAY-RESULT res%d=%%v\\n\", res%d)\n", i, i)
	}
	sb.WriteString("\t}\n}\n")
	return sb.String(), true
}
