package main

// Counterexample replay on the real code: a generated in-package test builds
// the solver's pre-state, calls the real function (cpu.Step()), evaluates the
// executable spec on the same input and prints the difference.  It is injected
// with `go test -overlay` and never touches /repo.

import (
	"encoding/json"
	"fmt"
	"go/types"
	"golang.org/x/tools/go/ssa"
	"os"
	"os/exec"
	"path/filepath"
	"sort"
	"strings"
	"time"
)

type ReplaySpec struct {
	Kind     string // "step", "none"
	Enc      *Encoding
	Call     string // Go statement that runs the real code (default cpu.Step())
	Diff     string // Go expression giving the difference mask (default vsStepDiff(...))
	Intr     bool   // the pending request is part of the pre-state
	Total    string // "<memory kind>/<io kind>": replay with the bundled implementations
	Rel      *relCase
	Contract *Contract
	Lemma    *ssa.Function
	Kcase    int
	Note     string
}

type replayFile struct {
	Property   string            `json:"property"`
	Obligation string            `json:"obligation"`
	Failed     []string          `json:"failed_components"`
	Solver     string            `json:"solver"`
	SolverOut  string            `json:"solver_output"`
	SMT        string            `json:"smt_file"`
	Model      map[string]string `json:"model"`
	Test       string            `json:"generated_test,omitempty"`
	TestOutput string            `json:"test_output,omitempty"`
	Reproduced bool              `json:"reproduced_on_real_code"`
	Note       string            `json:"note,omitempty"`
}

func (r *Run) replayPath(oblig string) string {
	n := strings.NewReplacer("/", "_", " ", "_", "(", "", ")", "", "*", "p", "[", "_", "]", "_", ":", "_", ".", "_").Replace(oblig)
	return filepath.Join(r.Out, "replay", r.Prop+"-"+n+".json")
}

func cells(model map[string]uint64, arr string) map[uint64]uint64 {
	out := map[uint64]uint64{}
	for k, v := range model {
		if strings.HasPrefix(k, "cell:"+arr+":") && strings.HasSuffix(k, ":idx") {
			if val, ok := model[strings.TrimSuffix(k, ":idx")+":val"]; ok {
				out[v] = val
			}
		}
	}
	return out
}

// leafKinds: Go path of every scalar CPU leaf -> "bool" / "int" / "uint".
func (ld *Loaded) leafKinds(t types.Type, gp string, out map[string]string) {
	st, ok := t.Underlying().(*types.Struct)
	if !ok {
		return
	}
	for i := 0; i < st.NumFields(); i++ {
		f := st.Field(i)
		p := gp + "." + f.Name()
		switch u := f.Type().Underlying().(type) {
		case *types.Struct:
			ld.leafKinds(f.Type(), p, out)
		case *types.Basic:
			switch {
			case u.Info()&types.IsBoolean != 0:
				out[p] = "bool"
			case u.Info()&types.IsInteger != 0:
				w, sg := intWidth(f.Type())
				if sg {
					out[p] = fmt.Sprintf("int%d", w)
				} else {
					out[p] = "uint"
				}
			}
		}
	}
}

// genStepReplay writes one replay case for a Step-level counterexample.
func (ld *Loaded) genStepReplay(model map[string]uint64, rs *ReplaySpec, idx int) string {
	var sb strings.Builder
	fmt.Fprintf(&sb, "func vsReplayCase%d() {\n", idx)
	sb.WriteString("\tg := new(VGhost)\n")
	emitCells := func(field, format string) {
		m := cells(model, field)
		var ks []uint64
		for k := range m {
			ks = append(ks, k)
		}
		sort.Slice(ks, func(i, j int) bool { return ks[i] < ks[j] })
		for _, k := range ks {
			fmt.Fprintf(&sb, format, field, k, m[k])
		}
	}
	emitCells("Mem", "\tg.%s[0x%04x] = 0x%02x\n")
	emitCells("InVal", "\tg.%s[0x%02x] = 0x%02x\n")
	sb.WriteString("\tcpu := &CPU{}\n")
	kinds := map[string]string{}
	ld.leafKinds(ld.pkgs[modPath].Type("CPU").Type(), "cpu", kinds)
	var paths []string
	for p := range kinds {
		paths = append(paths, p)
	}
	sort.Strings(paths)
	for _, p := range paths {
		v, ok := model["pre:"+p]
		if !ok {
			continue
		}
		switch k := kinds[p]; {
		case k == "bool":
			fmt.Fprintf(&sb, "\t%s = %v\n", p, v != 0)
		case strings.HasPrefix(k, "int"):
			var w int
			fmt.Sscanf(k, "int%d", &w)
			fmt.Fprintf(&sb, "\t%s = %d\n", p, sext64(v, w))
		default:
			fmt.Fprintf(&sb, "\t%s = 0x%x\n", p, v)
		}
	}
	if rs.Enc != nil {
		k := 0
		for _, p := range rs.Enc.Pre {
			fmt.Fprintf(&sb, "\tg.Mem[cpu.PC+%d] = 0x%02x\n", k, p)
			k++
		}
		if rs.Enc.CBX {
			k++
		}
		fmt.Fprintf(&sb, "\tg.Mem[cpu.PC+%d] = 0x%02x\n", k, rs.Enc.Op)
	}
	sb.WriteString("\tcpu.Memory = &VsRecMem{G: g}\n")
	if model["nil:cpu.IO"] == 0 {
		sb.WriteString("\tcpu.IO = &VsRecIO{G: g}\n")
	}
	if rs.Total != "" {
		kinds := strings.SplitN(rs.Total, "/", 2)
		store := func(field, typ string) {
			n := model["tot:"+field+":len"]
			if n > 0x20000 {
				n = 0x20000
			}
			fmt.Fprintf(&sb, "\t{\n\t\ts := make(%s, %d)\n", typ, n)
			for key, ix := range model {
				if strings.HasPrefix(key, "totcell:"+field+":") && strings.HasSuffix(key, ":idx") && ix < n {
					fmt.Fprintf(&sb, "\t\ts[%d] = 0x%x\n", ix, model[strings.TrimSuffix(key, ":idx")+":val"])
				}
			}
			fmt.Fprintf(&sb, "\t\tcpu.%s = s\n\t}\n", field)
		}
		switch kinds[0] {
		case "DumbMemory":
			store("Memory", "DumbMemory")
		case "MapMemory":
			sb.WriteString("\tcpu.Memory = MapMemory{}\n")
		}
		switch kinds[1] {
		case "DumbIO":
			store("IO", "DumbIO")
		case "nil":
			sb.WriteString("\tcpu.IO = nil\n")
		}
	}
	if model["nil:cpu.RETNHandler"] == 0 {
		sb.WriteString("\tcpu.RETNHandler = &VsRecHandler{G: g}\n")
	}
	if model["nil:cpu.RETIHandler"] == 0 {
		sb.WriteString("\tcpu.RETIHandler = &VsRecHandler{G: g}\n")
	}
	if rs.Intr && model["nil:cpu.Interrupt"] == 0 {
		n := model["intr:Len"]
		if n > 8 {
			n = 8 // cells beyond the first eight are not part of the model request
		}
		var bs []string
		for k := uint64(0); k < n; k++ {
			bs = append(bs, fmt.Sprintf("0x%02x", model[fmt.Sprintf("intr:Data:%d", k)]))
		}
		data := "nil"
		if n > 0 {
			data = "[]uint8{" + strings.Join(bs, ", ") + "}"
		} else if model["intr:Cap"] != 0 {
			data = "make([]uint8, 0, 1)" // empty but not nil
		}
		fmt.Fprintf(&sb, "\tcpu.Interrupt = &Interrupt{Type: InterruptType(%d), Data: %s}\n", sext64(model["intr:Type"], 64), data)
	}
	sb.WriteString("\toldCPU := *cpu\n\toldG := new(VGhost)\n\t*oldG = *g\n")
	call := rs.Call
	if call == "" {
		call = "cpu.Step()"
	}
	diff := rs.Diff
	if diff == "" {
		diff = "vsStepDiff(cpu, &oldCPU, g, oldG)"
	}
	if rs.Total != "" {
		diff = "uint64(0)"
	}
	sb.WriteString("\tfunc() {\n\t\tdefer func() {\n\t\t\tif r := recover(); r != nil {\n\t\t\t\tfmt.Printf(\"REPLAY-PANIC %v\\n\", r)\n\t\t\t}\n\t\t}()\n")
	sb.WriteString("\t\t" + call + "\n\t}()\n")
	sb.WriteString("\td := " + diff + "\n")
	sb.WriteString("\tfmt.Printf(\"REPLAY-PRE  %s\\n\", vsDescribe(&oldCPU))\n")
	sb.WriteString("\tfmt.Printf(\"REPLAY-REAL %s\\n\", vsDescribe(cpu))\n")
	sb.WriteString("\tfmt.Printf(\"REPLAY-SPEC %s\\n\", vsDescribeSpec(&oldCPU, oldG))\n")
	sb.WriteString("\tfmt.Printf(\"REPLAY-ACCESS real: %s\\n\", vsDescribeBus(g, oldG))\n")
	sb.WriteString("\tfmt.Printf(\"REPLAY-DIFFMASK 0x%x %s\\n\", d, vsCompNames(d))\n")
	sb.WriteString("\tif cpu.Memory != oldCPU.Memory || cpu.IO != oldCPU.IO || cpu.RETNHandler != oldCPU.RETNHandler || cpu.RETIHandler != oldCPU.RETIHandler {\n\t\tfmt.Println(\"REPLAY-FRAME reference field changed\")\n\t}\n")
	sb.WriteString("}\n")
	return sb.String()
}

// genRelReplay: replay of a relational (DD/FD) counterexample: two CPUs, two Steps.
func (ld *Loaded) genRelReplay(model map[string]uint64, rs *ReplaySpec, idx int) string {
	var sb strings.Builder
	rc := rs.Rel
	fmt.Fprintf(&sb, "func vsReplayCase%d() {\n", idx)
	sb.WriteString("\tmk := func(prefix uint8, ix, iy uint16) (*CPU, *VGhost) {\n\t\tg := new(VGhost)\n")
	for _, f := range []string{"Mem", "InVal"} {
		m := cells(model, f)
		var ks []uint64
		for k := range m {
			ks = append(ks, k)
		}
		sort.Slice(ks, func(i, j int) bool { return ks[i] < ks[j] })
		for _, k := range ks {
			fmt.Fprintf(&sb, "\t\tg.%s[0x%x] = 0x%02x\n", f, k, m[k])
		}
	}
	sb.WriteString("\t\tcpu := &CPU{}\n")
	kinds := map[string]string{}
	ld.leafKinds(ld.pkgs[modPath].Type("CPU").Type(), "cpu", kinds)
	var paths []string
	for p := range kinds {
		paths = append(paths, p)
	}
	sort.Strings(paths)
	for _, p := range paths {
		v, ok := model["pre:"+p]
		if !ok {
			continue
		}
		switch k := kinds[p]; {
		case k == "bool":
			fmt.Fprintf(&sb, "\t\t%s = %v\n", p, v != 0)
		case strings.HasPrefix(k, "int"):
			var w int
			fmt.Sscanf(k, "int%d", &w)
			fmt.Fprintf(&sb, "\t\t%s = %d\n", p, sext64(v, w))
		default:
			fmt.Fprintf(&sb, "\t\t%s = 0x%x\n", p, v)
		}
	}
	sb.WriteString("\t\tcpu.IX, cpu.IY = ix, iy\n\t\tg.Mem[cpu.PC] = prefix\n")
	if rc.cbx {
		fmt.Fprintf(&sb, "\t\tg.Mem[cpu.PC+1] = 0xcb\n\t\tg.Mem[cpu.PC+3] = 0x%02x\n", rc.op)
	} else {
		fmt.Fprintf(&sb, "\t\tg.Mem[cpu.PC+1] = 0x%02x\n", rc.op)
	}
	sb.WriteString("\t\tcpu.Memory = &VsRecMem{G: g}\n")
	if model["nil:cpu.IO"] == 0 {
		sb.WriteString("\t\tcpu.IO = &VsRecIO{G: g}\n")
	}
	if model["nil:cpu.RETNHandler"] == 0 {
		sb.WriteString("\t\tcpu.RETNHandler = &VsRecHandler{G: g}\n")
	}
	if model["nil:cpu.RETIHandler"] == 0 {
		sb.WriteString("\t\tcpu.RETIHandler = &VsRecHandler{G: g}\n")
	}
	sb.WriteString("\t\tcpu.Interrupt = nil\n\t\treturn cpu, g\n\t}\n")
	ix, iy, other := model["pre:cpu.States.SPR.IX"], model["pre:cpu.States.SPR.IY"], model["rel:other"]
	switch rc.kind {
	case "DDFD":
		fmt.Fprintf(&sb, "\tc1, g1 := mk(0xdd, 0x%x, 0x%x)\n\tc2, g2 := mk(0xfd, 0x%x, 0x%x)\n", ix, iy, iy, ix)
	case "NI-DD":
		fmt.Fprintf(&sb, "\tc1, g1 := mk(0xdd, 0x%x, 0x%x)\n\tc2, g2 := mk(0xdd, 0x%x, 0x%x)\n", ix, iy, ix, other)
	case "NI-FD":
		fmt.Fprintf(&sb, "\tc1, g1 := mk(0xfd, 0x%x, 0x%x)\n\tc2, g2 := mk(0xfd, 0x%x, 0x%x)\n", ix, iy, other, iy)
	}
	sb.WriteString("\tpc := c1.PC\n\tfmt.Printf(\"REPLAY-PRE  %s\\n\", vsDescribe(c1))\n")
	sb.WriteString("\tfunc() {\n\t\tdefer func() {\n\t\t\tif r := recover(); r != nil {\n\t\t\t\tfmt.Printf(\"REPLAY-PANIC %v\\n\", r)\n\t\t\t}\n\t\t}()\n\t\tc1.Step()\n\t\tc2.Step()\n\t}()\n")
	fmt.Fprintf(&sb, "\tif d := vsRelDiff(%q, c1, g1, c2, g2, pc); d != \"\" {\n\t\tfmt.Printf(\"REPLAY-DIVERGENCE %%s\\n\", d)\n\t} else {\n\t\tfmt.Println(\"REPLAY-AGREE\")\n\t}\n}\n", rc.kind)
	return sb.String()
}

// runReplay injects the test by overlay and runs it on the real code.
func (r *Run) runReplay(ld *Loaded, testSrc string, pkgDir string) (string, error) {
	dir, err := os.MkdirTemp("", "vreplay")
	if err != nil {
		return "", err
	}
	defer os.RemoveAll(dir)
	tf := filepath.Join(dir, "zz_verif_replay_test.go")
	os.WriteFile(tf, []byte(testSrc), 0o644)
	repl := map[string]string{filepath.Join(pkgDir, "zz_verif_replay_test.go"): tf}
	for dst, src := range ld.genFiles {
		if filepath.Dir(dst) == pkgDir {
			repl[dst] = src
		}
	}
	ov, _ := json.Marshal(map[string]interface{}{"Replace": repl})
	ovf := filepath.Join(dir, "ov.json")
	os.WriteFile(ovf, ov, 0o644)
	cmd := exec.Command("go", "test", "-tags=verif", "-overlay", ovf, "-vet=off", "-v", "-count=1", "-timeout", "60s", "-run", "^TestVerifReplay$", ".")
	cmd.Dir = pkgDir
	cmd.Env = append(os.Environ(), "GOFLAGS=-mod=mod", "GOPROXY=off", "GOSUMDB=off", "GOTOOLCHAIN=local")
	done := make(chan struct{})
	var out []byte
	go func() { out, err = cmd.CombinedOutput(); close(done) }()
	select {
	case <-done:
	case <-time.After(180 * time.Second):
		cmd.Process.Kill()
		<-done
	}
	return string(out), err
}

// reportFailures handles the failed Layer-P obligations of a run: one batch
// replay on the real code, one replay file and one VIOLATION line each.
func (r *Run) reportFailures(ld *Loaded, os_ []*OblResult, compMask func(string) bool) {
	if len(os_) == 0 {
		return
	}
	rfs := make([]*replayFile, len(os_))
	pkgDir, pkgName := "", "z80"
	var cases []int
	var body strings.Builder
	for i, o := range os_ {
		rf := &replayFile{Property: r.Prop, Obligation: o.Name, Failed: o.Failed, Model: map[string]string{}}
		rfs[i] = rf
		if o.res != nil {
			rf.Solver = o.res.Backend
			rf.SolverOut = truncate(o.res.Raw, 3000)
			rel, _ := filepath.Rel(r.Out, o.res.File)
			rf.SMT = rel
			for k, v := range o.res.Model {
				rf.Model[k] = fmt.Sprintf("0x%x", v)
			}
		}
		if o.Status == "failed" && o.vc != nil && o.vc.Replay != nil && o.res != nil && o.res.Model != nil && (o.vc.Replay.Kind == "step" || o.vc.Replay.Kind == "rel" || o.vc.Replay.Kind == "func" || o.vc.Replay.Kind == "lemma") && len(cases) < 400 {
			var src string
			switch o.vc.Replay.Kind {
			case "lemma":
				// a lemma whose parameters are all scalars is evaluated concretely
				// (executable spec + the real code it calls) on the model
				fn := o.vc.Replay.Lemma
				var as []string
				ok := true
				for k, prm := range fn.Params {
					if k == 0 && o.vc.Replay.Kcase >= 0 {
						as = append(as, fmt.Sprintf("%d", o.vc.Replay.Kcase))
						continue
					}
					if !isInteger(prm.Type()) && !isBool(prm.Type()) {
						ok = false
						break
					}
					v := o.res.Model[fmt.Sprintf("lemmaarg:%d", k)]
					if isBool(prm.Type()) {
						as = append(as, fmt.Sprintf("%v", v != 0))
					} else {
						w, sg := intWidth(prm.Type())
						if sg {
							as = append(as, fmt.Sprintf("%s(%d)", typeSrc(prm.Type(), fn.Pkg.Pkg), sext64(v, w)))
						} else {
							as = append(as, fmt.Sprintf("%s(0x%x)", typeSrc(prm.Type(), fn.Pkg.Pkg), v))
						}
					}
				}
				if !ok {
					continue
				}
				src = fmt.Sprintf("func vsReplayCase%d() {\n\tif !%s(%s) {\n\t\tfmt.Println(\"REPLAY-DIVERGENCE %s(%s) is false on the real code\")\n\t} else {\n\t\tfmt.Println(\"REPLAY-AGREE\")\n\t}\n}\n", i, fn.Name(), strings.Join(as, ", "), fn.Name(), strings.Join(as, ", "))
				if pkgDir == "" {
					pkgDir = filepath.Join(ld.repo, relDir(fn.Pkg.Pkg.Path()))
					pkgName = fn.Pkg.Pkg.Name()
				}
			case "rel":
				src = ld.genRelReplay(o.res.Model, o.vc.Replay, i)
			case "func":
				var ok bool
				src, ok = ld.genFuncReplay(o.vc.Replay.Contract, o.res.Model, o.Failed, i)
				if !ok {
					continue
				}
				if pkgDir == "" {
					pkgDir = filepath.Join(ld.repo, relDir(o.vc.Replay.Contract.Fn.Pkg.Pkg.Path()))
					pkgName = o.vc.Replay.Contract.Fn.Pkg.Pkg.Name()
				}
			default:
				src = ld.genStepReplay(o.res.Model, o.vc.Replay, i)
			}
			rf.Test = src
			body.WriteString(src)
			cases = append(cases, i)
		}
	}
	outByCase := map[int]string{}
	if len(cases) > 0 {
		var sb strings.Builder
		sb.WriteString("package " + pkgName + "\n\nimport (\n\t\"fmt\"\n\t\"testing\"\n)\n\n")
		sb.WriteString(body.String())
		sb.WriteString("func TestVerifReplay(t *testing.T) {\n")
		for _, c := range cases {
			fmt.Fprintf(&sb, "\tfmt.Println(\"REPLAY-CASE %d\")\n\tvsReplayCase%d()\n", c, c)
		}
		sb.WriteString("\tfmt.Println(\"REPLAY-END\")\n}\n")
		if pkgDir == "" {
			pkgDir = ld.repo
		}
		out, _ := r.runReplay(ld, sb.String(), pkgDir)
		cur := -1
		for _, ln := range strings.Split(out, "\n") {
			if strings.HasPrefix(ln, "REPLAY-CASE ") {
				fmt.Sscanf(ln, "REPLAY-CASE %d", &cur)
				continue
			}
			if strings.HasPrefix(ln, "REPLAY-END") {
				cur = -1
			}
			if cur >= 0 {
				outByCase[cur] += ln + "\n"
			}
		}
		if len(outByCase) == 0 {
			for _, c := range cases {
				outByCase[c] = truncate(out, 3000)
			}
		}
	}
	for i, o := range os_ {
		rf := rfs[i]
		noInput := true
		if out, ok := outByCase[i]; ok {
			rf.TestOutput = truncate(out, 6000)
			if strings.Contains(out, "REPLAY-PANIC") || strings.Contains(out, "REPLAY-FRAME") || strings.Contains(out, "REPLAY-DIVERGENCE") {
				rf.Reproduced = true
			}
			for _, ln := range strings.Split(out, "\n") {
				if strings.HasPrefix(ln, "REPLAY-DIFFMASK ") {
					f := strings.Fields(ln)
					if len(f) >= 2 && f[1] != "0x0" {
						for _, n := range f[2:] {
							if compMask == nil || compMask(n) {
								rf.Reproduced = true
							}
						}
					}
				}
			}
			noInput = !rf.Reproduced
		}
		if o.res != nil && o.res.Status == "structure" {
			rf.Note = "structural obligation (call graph / CFG): " + o.Note
		} else if o.Status != "failed" {
			rf.Note = "the solver returned no counterexample (" + o.Note + "); the obligation is not discharged"
		} else if noInput {
			rf.Note = "the solver's model did not reproduce on the real code through the replay harness (or no harness exists for this obligation kind)"
			if len(r.unmodelled) > 0 {
				rf.Note += "; the tree has fields outside the state the contracts describe (" + strings.Join(keysOf(r.unmodelled), ", ") + "): their entry values are arbitrary in the obligation and zero in the replay, so a counterexample that needs a non-zero value there does not replay"
			}
		}
		if o.Status != "failed" && !(o.res != nil && o.res.Status == "structure") {
			// no verdict from any solver within the limits (after the retry with a
			// longer limit and the case-split fall-backs): the obligation is
			// undecided.  A failed proof attempt is not a counterexample.
			path := r.replayPath(o.Name)
			data, _ := json.MarshalIndent(rf, "", " ")
			os.MkdirAll(filepath.Dir(path), 0o755)
			os.WriteFile(path, append(data, '\n'), 0o644)
			r.mu.Lock()
			r.Undecided = append(r.Undecided, fmt.Sprintf("%s: no solver decided it within the limits (%s); details in %s", o.Name, o.Note, path))
			r.mu.Unlock()
			continue
		}
		if o.bounded != nil && noInput {
			// generated from a bounded unrolling: neither a proof nor - without a
			// failing input on the real code - a refutation
			rf.Note = "bounded stand-in (" + strings.Join(o.bounded, "; ") + "): the candidate counterexample did not reproduce on the real code; nothing is reported"
			path := r.replayPath(o.Name)
			data, _ := json.MarshalIndent(rf, "", " ")
			os.MkdirAll(filepath.Dir(path), 0o755)
			os.WriteFile(path, append(data, '\n'), 0o644)
			r.mu.Lock()
			msg := fmt.Sprintf("%s: %s (no counterexample that replays on the real code; an invariant is needed to decide it", o.Name, strings.Join(o.bounded, "; "))
			if o.Status == "failed" {
				msg += "; candidate that did not reproduce in " + path
			}
			r.Undecided = append(r.Undecided, msg+")")
			r.mu.Unlock()
			continue
		}
		path := r.replayPath(o.Name)
		data, _ := json.MarshalIndent(rf, "", " ")
		os.MkdirAll(filepath.Dir(path), 0o755)
		os.WriteFile(path, append(data, '\n'), 0o644)
		r.violation(o.Name, path, noInput)
	}
}

func truncate(s string, n int) string {
	if len(s) > n {
		return s[:n] + "…"
	}
	return s
}
