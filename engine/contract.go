package main

// Contract files: comment-only Go files `verif_contracts.go` (build tag verif)
// next to the code.  Every line of interest starts with `//@`.
//
//   //@ func (cpu *CPU) fetchM1() (c uint8)
//   //@   requires <Go bool expr over entry values>
//   //@   ensures  <Go bool expr; old(e) = entry value of e; g = ghost record>
//   //@   modifies <lvalue>, <lvalue>, contents(<slice or map>)
//   //@   layer P|H        (default H)
//   //@   props C01 C05    (properties this contract's obligations belong to)
//
// Clauses are compiled to Go predicate functions in a generated overlay file
// and executed symbolically by the same executor as the code.

import (
	"bytes"
	"fmt"
	"go/ast"
	"go/parser"
	"go/printer"
	"go/token"
	"go/types"
	"os"
	"path/filepath"
	"strings"

	"golang.org/x/tools/go/ast/astutil"
	"golang.org/x/tools/go/ssa"
)

type Clause struct {
	Kind   string // requires, ensures, modifies, invariant
	Text   string
	Label  string
	FnName string // generated predicate function
	Fn     *ssa.Function
	Line   int
}

type CParam struct {
	Name string
	Type string // Go source of the type (variadic already turned into slice)
}

type Contract struct {
	Key             string // fnKey: z80.(*CPU).fetchM1
	PkgDir          string
	PkgName         string
	Header          string
	Params          []CParam // receiver first
	Results         []CParam
	Requires        []*Clause
	Ensures         []*Clause
	Modifies        []*Clause
	Layer           string
	Inline          bool
	Counts          string
	FrameDischarged bool // only the frame (modifies) was discharged in this run: usable without its ensures
	Props           []string
	Line            int
	id              string

	Fn             *ssa.Function
	DischargedBits map[string]bool // [diff] contracts: components discharged in this run (with the frame)
	Discharged     bool            // set by the helper-layer pass of this run
	Status         string          // "", "discharged", "failed", "unverified"
	Loops          map[int]*LoopSpec
	ifaceTypes     map[string]types.Type // replay: dynamic types the code asserts on interface parameters
}

func (c *Contract) Usable() bool {
	return c != nil && (c.Discharged || len(c.DischargedBits) > 0 || c.FrameDischarged) && !c.Inline
}

type LoopSpec struct {
	Ordinal    int
	Vars       []CParam // header phis exposed to the invariant: name type (phi comment)
	VarPhi     []string // phi comment names matching Vars
	Invariants []*Clause
	Modifies   []*Clause
	Decreases  *Clause
}

type ContractFile struct {
	Imports   []string
	Fields    map[string]map[string]bool
	Path      string
	PkgName   string
	Contracts []*Contract
}

func sanitize(s string) string {
	var sb strings.Builder
	for _, c := range s {
		if c >= 'a' && c <= 'z' || c >= 'A' && c <= 'Z' || c >= '0' && c <= '9' {
			sb.WriteRune(c)
		} else {
			sb.WriteByte('_')
		}
	}
	return sb.String()
}

func exprString(fset *token.FileSet, e ast.Node) string {
	var buf bytes.Buffer
	printer.Fprint(&buf, fset, e)
	return buf.String()
}

func parseHeader(hdr string) (key string, params, results []CParam, err error) {
	fset := token.NewFileSet()
	f, e := parser.ParseFile(fset, "hdr.go", "package p\n"+hdr+" {}\n", 0)
	if e != nil {
		return "", nil, nil, fmt.Errorf("bad contract header %q: %v", hdr, e)
	}
	fd, ok := f.Decls[0].(*ast.FuncDecl)
	if !ok {
		return "", nil, nil, fmt.Errorf("bad contract header %q", hdr)
	}
	field := func(fl *ast.FieldList, defName string) []CParam {
		var out []CParam
		if fl == nil {
			return nil
		}
		n := 0
		for _, fld := range fl.List {
			ty := fld.Type
			ts := exprString(fset, ty)
			if el, ok := ty.(*ast.Ellipsis); ok {
				ts = "[]" + exprString(fset, el.Elt)
			}
			if len(fld.Names) == 0 {
				out = append(out, CParam{fmt.Sprintf("%s%d", defName, n), ts})
				n++
			}
			for _, nm := range fld.Names {
				name := nm.Name
				if name == "_" {
					name = fmt.Sprintf("%s%d", defName, n)
				}
				out = append(out, CParam{name, ts})
				n++
			}
		}
		return out
	}
	name := fd.Name.Name
	if fd.Recv != nil {
		r := field(fd.Recv, "recv")
		params = append(params, r...)
		key = "(" + r[0].Type + ")." + name
	} else {
		key = name
	}
	params = append(params, field(fd.Type.Params, "arg")...)
	results = field(fd.Type.Results, "result")
	return
}

func parseContractFile(path string) (*ContractFile, error) {
	data, err := os.ReadFile(path)
	if err != nil {
		return nil, err
	}
	cf := &ContractFile{Path: path}
	var cur *Contract
	var curLoop *LoopSpec
	for ln, line := range strings.Split(string(data), "\n") {
		t := strings.TrimSpace(line)
		if strings.HasPrefix(t, "package ") {
			cf.PkgName = strings.TrimSpace(strings.TrimPrefix(t, "package "))
			continue
		}
		if !strings.HasPrefix(t, "//@") {
			if t == "" || t == "//" {
				// block separator
			}
			continue
		}
		t = strings.TrimSpace(strings.TrimPrefix(t, "//@"))
		if t == "" {
			continue
		}
		// strip trailing line comment  " // ..."
		if k := strings.Index(t, " // "); k >= 0 {
			t = strings.TrimSpace(t[:k])
		}
		word := t
		rest := ""
		if k := strings.IndexAny(t, " \t"); k >= 0 {
			word, rest = t[:k], strings.TrimSpace(t[k+1:])
		}
		switch word {
		case "func":
			key, ps, rs, err := parseHeader(t)
			if err != nil {
				return nil, fmt.Errorf("%s:%d: %v", path, ln+1, err)
			}
			cur = &Contract{Key: key, Header: t, Params: ps, Results: rs, Layer: "H", Line: ln + 1, PkgDir: filepath.Dir(path), Loops: map[int]*LoopSpec{}}
			curLoop = nil
			cf.Contracts = append(cf.Contracts, cur)
		case "loop":
			// loop #k [vars name type (phi), ...]
			if cur == nil {
				return nil, fmt.Errorf("%s:%d: loop outside a func block", path, ln+1)
			}
			var k int
			fmt.Sscanf(rest, "#%d", &k)
			curLoop = &LoopSpec{Ordinal: k}
			cur.Loops[k] = curLoop
			if i := strings.Index(rest, "vars"); i >= 0 {
				for _, v := range strings.Split(rest[i+4:], ",") {
					f := strings.Fields(v)
					if len(f) < 2 {
						return nil, fmt.Errorf("%s:%d: bad loop vars", path, ln+1)
					}
					phi := f[0]
					if len(f) >= 3 {
						phi = strings.Trim(f[2], "()")
					}
					curLoop.Vars = append(curLoop.Vars, CParam{f[0], f[1]})
					curLoop.VarPhi = append(curLoop.VarPhi, phi)
				}
			}
		case "requires", "ensures", "invariant", "decreases":
			if cur == nil {
				return nil, fmt.Errorf("%s:%d: clause outside a func block", path, ln+1)
			}
			cl := &Clause{Kind: word, Text: rest, Line: ln + 1}
			// optional label:  ensures [name] expr
			if strings.HasPrefix(rest, "[") {
				if k := strings.Index(rest, "]"); k > 0 {
					cl.Label = rest[1:k]
					cl.Text = strings.TrimSpace(rest[k+1:])
				}
			}
			switch {
			case word == "invariant" && curLoop != nil:
				curLoop.Invariants = append(curLoop.Invariants, cl)
			case word == "decreases" && curLoop != nil:
				curLoop.Decreases = cl
			case word == "requires":
				cur.Requires = append(cur.Requires, cl)
			case word == "ensures":
				cur.Ensures = append(cur.Ensures, cl)
			default:
				return nil, fmt.Errorf("%s:%d: misplaced %s", path, ln+1, word)
			}
		case "modifies":
			if cur == nil {
				return nil, fmt.Errorf("%s:%d: clause outside a func block", path, ln+1)
			}
			for _, it := range splitTop(rest) {
				it = strings.TrimSpace(it)
				if it == "" || it == "nothing" {
					continue
				}
				cl := &Clause{Kind: "modifies", Text: it, Line: ln + 1}
				if curLoop != nil {
					curLoop.Modifies = append(curLoop.Modifies, cl)
				} else {
					cur.Modifies = append(cur.Modifies, cl)
				}
			}
		case "import":
			cf.Imports = append(cf.Imports, strings.Trim(rest, "\""))
		case "fields":
			// fields <Type> <field>...: the fields of a struct type the contracts know
			// about.  Any other field is "unmodelled": never frame-checked (no property
			// forbids, say, a cycle counter), always havocked by a contract application,
			// and a free unknown of every pre-state (so reading it can never help).
			f := strings.Fields(rest)
			if len(f) >= 1 {
				if cf.Fields == nil {
					cf.Fields = map[string]map[string]bool{}
				}
				cf.Fields[f[0]] = map[string]bool{}
				for _, n := range f[1:] {
					cf.Fields[f[0]][n] = true
				}
			}
		case "counts":
			cur.Counts = strings.TrimPrefix(rest, "g.") // ghost call counter bumped by every call
		case "inline":
			cur.Inline = true // verified, but callers see the body (constructors returning fresh objects)
		case "layer":
			cur.Layer = rest
		case "props":
			cur.Props = strings.Fields(rest)
		default:
			return nil, fmt.Errorf("%s:%d: unknown contract keyword %q", path, ln+1, word)
		}
	}
	return cf, nil
}

// splitTop splits on commas that are not nested in brackets.
func splitTop(s string) []string {
	var out []string
	depth, start := 0, 0
	for i, c := range s {
		switch c {
		case '(', '[', '{':
			depth++
		case ')', ']', '}':
			depth--
		case ',':
			if depth == 0 {
				out = append(out, s[start:i])
				start = i + 1
			}
		}
	}
	return append(out, s[start:])
}

// rewriteOld turns old(e) into e with every state-carrying identifier renamed
// to its old_ twin (also inside function literals used with vsForall*).
func rewriteOld(expr string, names map[string]bool) (string, error) {
	fset := token.NewFileSet()
	e, err := parser.ParseExprFrom(fset, "clause", expr, 0)
	if err != nil {
		return "", err
	}
	rename := func(n ast.Node) {
		astutil.Apply(n, func(c *astutil.Cursor) bool {
			switch v := c.Node().(type) {
			case *ast.SelectorExpr:
				// only the root of a selector chain is a variable
				if id, ok := v.X.(*ast.Ident); ok {
					if names[id.Name] {
						id.Name = "old_" + id.Name
					}
					return false
				}
				return true
			case *ast.KeyValueExpr:
				return true
			case *ast.Ident:
				if names[v.Name] {
					if _, isField := c.Parent().(*ast.SelectorExpr); isField && c.Name() == "Sel" {
						return true
					}
					v.Name = "old_" + v.Name
				}
			}
			return true
		}, nil)
	}
	wrap := &ast.ParenExpr{X: e}
	astutil.Apply(wrap, func(c *astutil.Cursor) bool {
		if call, ok := c.Node().(*ast.CallExpr); ok {
			if id, ok := call.Fun.(*ast.Ident); ok && id.Name == "old" && len(call.Args) == 1 {
				rename(call.Args[0])
				c.Replace(&ast.ParenExpr{X: call.Args[0]})
				return false
			}
		}
		return true
	}, nil)
	return exprString(fset, wrap.X), nil
}

func (c *Contract) predParams(withResults bool, loop *LoopSpec) string {
	var ps []string
	for _, p := range c.Params {
		ps = append(ps, fmt.Sprintf("%s, old_%s %s", p.Name, p.Name, p.Type))
	}
	ps = append(ps, "g, old_g *VGhost")
	if loop != nil {
		for _, v := range loop.Vars {
			ps = append(ps, fmt.Sprintf("%s %s", v.Name, v.Type))
		}
	}
	if withResults {
		for _, r := range c.Results {
			ps = append(ps, fmt.Sprintf("%s %s", r.Name, r.Type))
		}
	}
	return strings.Join(ps, ", ")
}

// generate writes the predicate functions of all contracts of one package.
func (cf *ContractFile) generate(ghostInPkg bool) (string, error) {
	var sb strings.Builder
	fmt.Fprintf(&sb, "// Code generated by vcheck from %s. DO NOT EDIT.\n\npackage %s\n\n", filepath.Base(cf.Path), cf.PkgName)
	for _, im := range cf.Imports {
		fmt.Fprintf(&sb, "import %q\n", im)
	}
	for ci, c := range cf.Contracts {
		c.PkgName = cf.PkgName
		c.id = fmt.Sprintf("%d_%s", ci, sanitize(c.Key))
		names := map[string]bool{"g": true}
		for _, p := range c.Params {
			names[p.Name] = true
		}
		emit := func(cl *Clause, tag string, i int, withRes bool, loop *LoopSpec) error {
			ex, err := rewriteOld(cl.Text, names)
			if err != nil {
				return fmt.Errorf("%s:%d: %v", cf.Path, cl.Line, err)
			}
			cl.FnName = fmt.Sprintf("vc_%s_%s_%d", c.id, tag, i)
			rt := "bool"
			if cl.Label == "diff" || cl.Label == "diffalt" {
				// component-wise postcondition: `<uint64 difference mask> == 0`
				t := strings.TrimSpace(ex)
				if !strings.HasSuffix(t, "== 0") {
					return fmt.Errorf("%s:%d: a [diff] clause must have the form <mask> == 0", cf.Path, cl.Line)
				}
				ex = strings.TrimSpace(strings.TrimSuffix(t, "== 0"))
				rt = "uint64"
			}
			fmt.Fprintf(&sb, "//line %s:%d\nfunc %s(%s) %s {\n\treturn %s\n}\n\n", cf.Path, cl.Line, cl.FnName, c.predParams(withRes, loop), rt, ex)
			return nil
		}
		for i, cl := range c.Requires {
			if err := emit(cl, "req", i, false, nil); err != nil {
				return "", err
			}
		}
		for i, cl := range c.Ensures {
			if err := emit(cl, "ens", i, true, nil); err != nil {
				return "", err
			}
		}
		emitMod := func(cl *Clause, tag string, i int, loop *LoopSpec) {
			cl.FnName = fmt.Sprintf("vc_%s_%s_%d", c.id, tag, i)
			t := cl.Text
			body := "&(" + t + ")"
			if strings.HasPrefix(t, "contents(") && strings.HasSuffix(t, ")") {
				body = t[len("contents(") : len(t)-1]
			} else if strings.HasPrefix(t, "*") {
				body = t[1:]
			}
			fmt.Fprintf(&sb, "//line %s:%d\nfunc %s(%s) interface{} {\n\treturn %s\n}\n\n", cf.Path, cl.Line, cl.FnName, c.predParams(false, loop), body)
		}
		for i, cl := range c.Modifies {
			emitMod(cl, "mod", i, nil)
		}
		for k, lp := range c.Loops {
			for i, cl := range lp.Invariants {
				if err := emit(cl, fmt.Sprintf("loop%d_inv", k), i, false, lp); err != nil {
					return "", err
				}
			}
			for i, cl := range lp.Modifies {
				emitMod(cl, fmt.Sprintf("loop%d_mod", k), i, lp)
			}
		}
	}
	return sb.String(), nil
}

// hasAux: does a loop of the contract have an invariant labelled [aux]?
func (c *Contract) hasAux() bool {
	for _, lp := range c.Loops {
		for _, cl := range lp.Invariants {
			if cl.Label == "aux" {
				return true
			}
		}
	}
	return false
}

// maintenanceGoal: is the named goal "invariant holds on entry / is preserved"
// (or the loop frame) of an invariant that is not labelled [property]?
func (c *Contract) maintenanceGoal(name string) bool {
	k := strings.Index(name, "/loop#")
	if k < 0 {
		return false
	}
	rest := name[k+len("/loop#"):]
	var ord, inv int
	var kind string
	if n, _ := fmt.Sscanf(rest, "%d/entry#%d", &ord, &inv); n == 2 {
		kind = "inv"
	} else if n, _ := fmt.Sscanf(rest, "%d/preserve#%d", &ord, &inv); n == 2 {
		kind = "inv"
	}
	if kind == "" {
		return true // loop frame
	}
	lp := c.Loops[ord]
	if lp == nil || inv >= len(lp.Invariants) {
		return false
	}
	return lp.Invariants[inv].Label != "property"
}
