package main

import (
	"go/types"
	"strings"

	"golang.org/x/tools/go/ssa"
)

// Package-level variables.  The driver calls initPackage for every package
// whose globals the verified function may touch, before running it.  The
// synthesized initialiser is executed symbolically; a variable never stored to
// outside initialisation keeps its initial value (a constant), every other
// variable is havocked (arbitrary value of its type).

func (x *Exec) initPackage(pkg *ssa.Package, st *State) {
	if x.globals == nil {
		x.globals = map[*ssa.Global]*Object{}
	}
	if x.initDone == nil {
		x.initDone = map[*ssa.Package]bool{}
	}
	if x.initDone[pkg] {
		return
	}
	x.initDone[pkg] = true
	var gs []*ssa.Global
	for _, m := range pkg.Members {
		if g, ok := m.(*ssa.Global); ok {
			gs = append(gs, g)
		}
	}
	for _, g := range gs {
		et := g.Type().Underlying().(*types.Pointer).Elem()
		o := x.newObj("global:"+g.Name(), et)
		x.globals[g] = o
		st.h[o] = x.zeroV(et)
	}
	initFn := pkg.Func("init")
	if initFn != nil && initFn.Blocks != nil {
		save := x.useContracts
		x.useContracts = false
		x.inInit = true
		_, rst := x.run(initFn, nil, &State{h: st.h}, x.b.True())
		x.inInit = false
		x.useContracts = save
		st.h = rst.h
	}
	for _, g := range gs {
		if x.ld.storedGlobals[g] && !strings.HasPrefix(g.Name(), "init$") {
			et := g.Type().Underlying().(*types.Pointer).Elem()
			st.h[x.globals[g]] = x.symV(et, "global_"+g.Name(), st.h)
		}
	}
}

func (x *Exec) notePoison(pkg *ssa.Package, why string) {
	msg := "the initialiser of package " + pkg.Pkg.Path() + " is outside the verifier's subset (" + why + "): its variables are arbitrary in this obligation"
	for _, b := range x.bounded {
		if b == msg {
			return
		}
	}
	x.bounded = append(x.bounded, msg)
}

func (ld *Loaded) globalObj(x *Exec, g *ssa.Global, st *State) *Object {
	if o, ok := x.globals[g]; ok {
		if why, bad := x.poisoned[g.Pkg]; bad {
			x.notePoison(g.Pkg, why)
		}
		return o
	}
	if why, bad := x.poisoned[g.Pkg]; bad {
		// its initialiser is outside the subset: arbitrary value, and this run
		// can no longer prove anything
		if x.globals == nil {
			x.globals = map[*ssa.Global]*Object{}
		}
		et := g.Type().Underlying().(*types.Pointer).Elem()
		o := x.newObj("global:"+g.String(), et)
		x.globals[g] = o
		st.h[o] = x.symV(et, "global_"+g.Name(), st.h)
		x.notePoison(g.Pkg, why)
		return o
	}
	if x.inInit {
		// a global of another package referenced during initialisation
		if x.globals == nil {
			x.globals = map[*ssa.Global]*Object{}
		}
		et := g.Type().Underlying().(*types.Pointer).Elem()
		o := x.newObj("global:"+g.String(), et)
		x.globals[g] = o
		st.h[o] = x.symV(et, "global_"+g.Name(), st.h)
		return o
	}
	// a zero-size variable of a library package (encoding/binary.LittleEndian …)
	// has only one value
	if et := g.Type().Underlying().(*types.Pointer).Elem(); isZeroSize(et) {
		if x.globals == nil {
			x.globals = map[*ssa.Global]*Object{}
		}
		o := x.newObj("global:"+g.String(), et)
		x.globals[g] = o
		st.h[o] = x.zeroV(et)
		return o
	}
	unsupported("package-level variable %s of a package that was not initialised by the driver", g.String())
	return nil
}

func isZeroSize(t types.Type) bool {
	switch u := t.Underlying().(type) {
	case *types.Struct:
		for i := 0; i < u.NumFields(); i++ {
			if !isZeroSize(u.Field(i).Type()) {
				return false
			}
		}
		return true
	case *types.Array:
		return u.Len() == 0 || isZeroSize(u.Elem())
	}
	return false
}
