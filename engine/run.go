package main

// Bookkeeping of one check run: obligations, results, evidence, violations.

import (
	"encoding/json"
	"fmt"
	"os"
	"path/filepath"
	"sort"
	"strconv"
	"strings"
	"sync"
	"sync/atomic"
	"time"
)

type OblResult struct {
	Name    string
	Layer   string
	Status  string // discharged, failed, undecided, known
	Backend string
	Ms      int64
	Failed  []string
	File    string
	Note    string
	res     *SolveResult
	vc      *VC
	applied int
	inlined int
	bounded []string // the obligation group was generated with loops cut at a fixed depth: refutation only
}

type Run struct {
	Prop    string
	Tier    string
	Seed    int64
	Verif   string
	Out     string
	Repo    string
	Timeout int
	Cross   bool
	t0      time.Time

	mu               sync.Mutex
	Results          []*OblResult
	Violations       []string // printed lines
	Known            []string
	Undecided        []string
	Assumptions      map[string]bool
	Trusted          map[string]bool
	Notes            map[string]interface{}
	Funcs            map[string]string // function under contract -> how (hand-written / schema / inlined)
	Stale            []string
	Bounded          []string
	inlinedFns       map[string]bool
	unmodelled       map[string]bool
	notApplicable    map[string]int
	aborted          bool // a family was cut short after many failures: no second rounds
	crossOK, crossNo int
	coverN, coverSat int
	deadline         time.Time
	overBudget       int
	engineErr        []string
	only             string
	samples          []map[string]interface{}
}

func newRun(prop, tier, verif, repo string, seed int64) *Run {
	r := &Run{Prop: prop, Tier: tier, Seed: seed, Verif: verif, Out: verif, Repo: repo, t0: time.Now(), Timeout: 20,
		Assumptions: map[string]bool{}, Trusted: map[string]bool{}, Notes: map[string]interface{}{}, Funcs: map[string]string{}}
	budget := 600
	if tier == "thorough" {
		r.Timeout = 120
		r.Cross = true
		budget = 3 * 3600
	}
	if v, err := strconv.Atoi(os.Getenv("VERIF_BUDGET_S")); err == nil && v > 0 {
		budget = v
	}
	r.deadline = r.t0.Add(time.Duration(budget) * time.Second)
	for _, t := range []string{"go/types + go/ssa lowering of the working tree (x/tools v0.29.0)", "vcheck SSA->SMT encoder and simplifier (/verif/engine)",
		"SMT solvers z3 5.1.0 / cvc5 1.0.3 / z3 4.8.12", "spec functions under /verif/spec (reference semantics)"} {
		r.Trusted[t] = true
	}
	return r
}

func (r *Run) workFile(name string) string {
	n := strings.NewReplacer("/", "_", " ", "_", "(", "", ")", "", "*", "p", "[", "_", "]", "_", ":", "_", "<", "", ">", "", "=", "-", ",", "_").Replace(name)
	return filepath.Join(r.Out, "work", r.Prop, n+".smt2")
}

// discharge solves a batch of VCs in parallel.
func (r *Run) discharge(vcs []*VC) []*OblResult {
	out := make([]*OblResult, len(vcs))
	var wg sync.WaitGroup
	sem := make(chan struct{}, 16)
	for i, vc := range vcs {
		wg.Add(1)
		sem <- struct{}{}
		go func(i int, vc *VC) {
			defer wg.Done()
			defer func() { <-sem }()
			or := &OblResult{Name: vc.Name, Layer: vc.Layer, vc: vc}
			r.noteExec(vc.Exec)
			if vc.Exec != nil {
				or.bounded = vc.Exec.bounded
			}
			defer or.demoteBounded()
			if len(vc.Query.Goals) == 0 {
				// everything folded to true during generation
				or.Status, or.Backend = "discharged", "simplifier"
				out[i] = or
				return
			}
			res := Solve(vc.B, vc.Query, r.workFile(vc.Name), r.Timeout, r.Cross)
			r.vacuity(vc, r.workFile(vc.Name))
			or.res, or.Backend, or.Ms, or.File = res, res.Backend, res.Ms, res.File
			switch res.Status {
			case "unsat":
				or.Status = "discharged"
				if r.Cross {
					confirmed := false
					for _, v := range res.Others {
						if v == "unsat" {
							confirmed = true
						}
					}
					r.mu.Lock()
					if confirmed {
						r.crossOK++
					} else {
						r.crossNo++
					}
					r.mu.Unlock()
				}
			case "sat":
				or.Status = "failed"
				or.Failed = res.Failed
			default:
				or.Status = "undecided"
				or.Note = res.Status + ": " + firstLine(res.Raw)
			}
			out[i] = or
		}(i, vc)
	}
	wg.Wait()
	// undecided obligations get one more, less crowded attempt with a longer
	// limit before they are reported (a timeout under load is not a verdict)
	var again []int
	for i, o := range out {
		if o.Status == "undecided" && o.bounded == nil {
			again = append(again, i)
		}
	}
	if len(again) > 0 && len(again) <= 64 {
		sem2 := make(chan struct{}, 4)
		for _, i := range again {
			wg.Add(1)
			sem2 <- struct{}{}
			go func(i int) {
				defer wg.Done()
				defer func() { <-sem2 }()
				vc := vcs[i]
				res := Solve(vc.B, vc.Query, r.workFile(vc.Name), r.Timeout*4, false)
				or := out[i]
				or.res, or.Backend, or.Ms, or.File = res, res.Backend, res.Ms, res.File
				switch res.Status {
				case "unsat":
					or.Status, or.Note = "discharged", "second attempt"
				case "sat":
					or.Status, or.Failed = "failed", res.Failed
				default:
					or.Note = res.Status + " (twice): " + firstLine(res.Raw)
				}
			}(i)
		}
		wg.Wait()
	}
	return out
}

// pipeline generates and discharges n obligation groups in a worker pool; the
// (large) term DAG of each group is dropped as soon as it is decided.  gen may
// be called again for an undecided group (second attempt with a longer limit).
func (r *Run) pipeline(n int, gen func(i int) (*VC, error)) []*OblResult {
	out := make([]*OblResult, n)
	var wg sync.WaitGroup
	sem := make(chan struct{}, 16)
	var notOK int32
	skipped := 0
	solve := func(i int, timeout int, second bool) {
		if time.Now().After(r.deadline) {
			r.mu.Lock()
			r.overBudget++
			r.aborted = true
			r.mu.Unlock()
			return
		}
		if atomic.LoadInt32(&notOK) >= 48 && !second {
			// a broken tree: enough obligations of this family have failed to
			// report the violation; the rest of the family is not attempted
			r.mu.Lock()
			skipped++
			r.mu.Unlock()
			return
		}
		vc, err := gen(i)
		if err != nil {
			r.mu.Lock()
			r.engineErr = append(r.engineErr, err.Error())
			r.mu.Unlock()
			return
		}
		if vc == nil {
			return
		}
		or := &OblResult{Name: vc.Name, Layer: vc.Layer, vc: &VC{Name: vc.Name, Layer: vc.Layer, Replay: vc.Replay, Info: vc.Info, caseIdx: i}}
		or.applied, or.inlined = vc.Exec.applied, vc.Exec.inlined
		or.bounded = vc.Exec.bounded
		defer or.demoteBounded()
		r.noteExec(vc.Exec)
		if len(vc.Query.Goals) == 0 {
			or.Status, or.Backend = "discharged", "simplifier"
			out[i] = or
			return
		}
		res := Solve(vc.B, vc.Query, r.workFile(vc.Name), timeout, r.Cross && !second)
		if !second {
			r.vacuity(vc, r.workFile(vc.Name))
		}
		or.res, or.Backend, or.Ms, or.File = res, res.Backend, res.Ms, res.File
		switch res.Status {
		case "unsat":
			or.Status = "discharged"
			if second {
				or.Note = "second attempt"
			}
			if r.Cross && !second {
				confirmed := false
				for _, v := range res.Others {
					if v == "unsat" {
						confirmed = true
					}
				}
				r.mu.Lock()
				if confirmed {
					r.crossOK++
				} else {
					r.crossNo++
				}
				r.mu.Unlock()
			}
		case "sat":
			or.Status = "failed"
			or.Failed = res.Failed
			atomic.AddInt32(&notOK, 1)
		default:
			or.Status = "undecided"
			or.Note = res.Status + ": " + firstLine(res.Raw)
			if !second {
				atomic.AddInt32(&notOK, 1)
			}
		}
		out[i] = or
	}
	for i := 0; i < n; i++ {
		wg.Add(1)
		sem <- struct{}{}
		go func(i int) {
			defer wg.Done()
			defer func() { <-sem }()
			solve(i, r.Timeout, false)
		}(i)
	}
	wg.Wait()
	if skipped > 0 {
		r.aborted = true
		r.mu.Lock()
		r.Notes["skipped_after_failures"] = fmt.Sprintf("%d obligation groups were not attempted after 48 of their family had failed", skipped)
		r.mu.Unlock()
	}
	var again []int
	for i, o := range out {
		if o != nil && o.Status == "undecided" && o.bounded == nil {
			again = append(again, i)
		}
	}
	if len(again) > 0 && len(again) <= 16 {
		sem2 := make(chan struct{}, 4)
		for _, i := range again {
			wg.Add(1)
			sem2 <- struct{}{}
			go func(i int) {
				defer wg.Done()
				defer func() { <-sem2 }()
				solve(i, r.Timeout*4, true)
			}(i)
		}
		wg.Wait()
	}
	var res []*OblResult
	for _, o := range out {
		if o != nil {
			res = append(res, o)
		}
	}
	return res
}

// demoteBounded: an obligation group generated from a bounded unrolling proves
// nothing; its counterexamples still count if they replay on the real code.
func (o *OblResult) demoteBounded() {
	if o.bounded == nil || o.Status != "discharged" {
		return
	}
	o.Status = "undecided"
	o.Note = "bounded stand-in, no counterexample within the bound: " + strings.Join(o.bounded, "; ")
}

// vacuity (thorough tier): the hypotheses of an obligation group (the
// function's requires, the case's pins, assumed callee postconditions, loop
// invariants) must be satisfiable - a contradictory set would discharge
// anything.
func (r *Run) vacuity(vc *VC, file string) {
	if !r.Cross || len(vc.Query.Hyps) == 0 || vc.aliasInst {
		// (an aliasing instance may be excluded by the requires - `p != &cpu.AF.Lo` -;
		// the unaliased instance of the same contract is covered)
		return
	}
	q := &Query{Hyps: nil, Goals: nil}
	for _, h := range vc.Query.Hyps {
		q.Goals = append(q.Goals, NamedTerm{"hyp", h})
	}
	st := Cover(vc.B, q, strings.TrimSuffix(file, ".smt2")+".cover.smt2", r.Timeout)
	r.mu.Lock()
	defer r.mu.Unlock()
	r.coverN++
	switch st {
	case "sat":
		r.coverSat++
	case "unsat":
		r.engineErr = append(r.engineErr, "VACUOUS: the hypotheses of "+vc.Name+" are contradictory")
	}
}

// noteExec records what one symbolic run relied on: stubs (assumed contracts of
// external functions), contracts declared not applicable at a site, writes to
// unmodelled fields.
func (r *Run) noteExec(x *Exec) {
	if x == nil {
		return
	}
	if len(x.bounded) > 0 {
		r.mu.Lock()
		for _, b := range x.bounded {
			dup := false
			for _, e := range r.Bounded {
				dup = dup || e == b
			}
			if !dup {
				r.Bounded = append(r.Bounded, b)
			}
		}
		r.mu.Unlock()
	}
	r.mu.Lock()
	defer r.mu.Unlock()
	for s := range x.modelsUsed {
		r.Trusted["model of "+s+" (population count; proved equal to the function's real body by the obligation model["+s+"] of C02)"] = true
	}
	for s := range x.stubsUsed {
		r.Assumptions["stub (assumed contract of an external or log-only function): "+s] = true
	}
	if x.gobj != nil && x.ld.ghostField["Mem"] != 0 || len(x.ld.ghostField) > 0 && x.gobj != nil {
		r.Assumptions["interface contract assumed for user-supplied Memory / IO / RETN- and RETI-handlers: Get returns the byte last Set (plain byte store), every method terminates, does not panic and does not touch the CPU object; proved for the bundled implementations (C15, C18)"] = true
	}
	for f := range x.inlinedFns {
		if r.inlinedFns == nil {
			r.inlinedFns = map[string]bool{}
		}
		r.inlinedFns[f] = true
	}
	for f := range x.unmodelledWritten {
		if r.unmodelled == nil {
			r.unmodelled = map[string]bool{}
		}
		r.unmodelled[f] = true
	}
	for _, n := range x.notApplicable {
		if r.notApplicable == nil {
			r.notApplicable = map[string]int{}
		}
		r.notApplicable[n]++
	}
}

func firstLine(s string) string {
	s = strings.TrimSpace(s)
	if k := strings.Index(s, "\n"); k >= 0 {
		s = s[:k]
	}
	if len(s) > 200 {
		s = s[:200]
	}
	return s
}

func (r *Run) add(rs ...*OblResult) {
	r.mu.Lock()
	r.Results = append(r.Results, rs...)
	r.mu.Unlock()
}

func (r *Run) violation(oblig string, replayPath string, noInput bool) {
	line := fmt.Sprintf("VIOLATION property=%s replay=%s", r.Prop, replayPath)
	if noInput {
		line += " no-failing-input-found"
	}
	r.mu.Lock()
	r.Violations = append(r.Violations, line)
	r.mu.Unlock()
	fmt.Printf("FAILED-OBLIGATION property=%s obligation=%s\n", r.Prop, oblig)
	fmt.Println(line)
}

func (r *Run) finish(checkerCmd string) int {
	obl, dis := 0, 0
	var samples []map[string]interface{}
	byB := map[string]int{}
	var failed []string
	for _, o := range r.Results {
		obl++
		if o.Status == "discharged" || o.Status == "known" {
			dis++
		} else {
			failed = append(failed, o.Name+" ("+o.Status+")")
		}
		byB[o.Backend]++
		if len(samples) < 5 && o.File != "" {
			rel, _ := filepath.Rel(r.Out, o.File)
			samples = append(samples, map[string]interface{}{"obligation": o.Name, "smt": rel, "result": o.Status, "backend": o.Backend, "ms": o.Ms})
		}
	}
	samples = append(samples, r.samples...)
	if len(samples) == 0 {
		for _, o := range r.Results {
			if len(samples) < 5 {
				samples = append(samples, map[string]interface{}{"obligation": o.Name, "result": o.Status, "backend": o.Backend})
			}
		}
	}
	tb, as := []string{}, []string{}
	for t := range r.Trusted {
		tb = append(tb, t)
	}
	for a := range r.Assumptions {
		as = append(as, a)
	}
	sort.Strings(tb)
	sort.Strings(as)
	sort.Strings(failed)
	statMu.Lock()
	ss := solverSeconds
	statMu.Unlock()
	cov := map[string]interface{}{
		"obligations": obl, "discharged": dis, "checker_cmd": checkerCmd, "trusted_base": tb,
		"by_backend": byB, "solver_s": float64(int(ss*100)) / 100, "samples": samples,
		"functions_under_contract": r.Funcs, "stale_contracts": nn(r.Stale), "bounded_standins": nn(r.Bounded),
		"known_findings": nn(r.Known), "undischarged": nn(failed), "engine_errors": nn(r.engineErr),
	}
	for k, v := range r.Notes {
		cov[k] = v
	}
	if len(r.inlinedFns) > 0 {
		names := keysOf(r.inlinedFns)
		sample := names
		if len(sample) > 12 {
			sample = sample[:12]
		}
		cov["functions_without_own_contract_verified_inside_their_callers_obligations"] = map[string]interface{}{"count": len(names), "sample": sample,
			"note": "e.g. the one-site instruction handlers: each is verified as part of the arm (opcode-byte case) that calls it, against the reference semantics of that encoding"}
	}
	if len(r.unmodelled) > 0 {
		cov["unmodelled_fields_written"] = keysOf(r.unmodelled)
	}
	if len(r.notApplicable) > 0 {
		cov["contracts_not_applicable_at_a_site_body_verified_in_place"] = r.notApplicable
	}
	if r.Cross {
		cov["vacuity_covers"] = map[string]int{"groups_with_hypotheses_checked": r.coverN, "hypotheses_satisfiable": r.coverSat}
		cov["second_solver"] = map[string]int{"unsat_confirmed_by_a_second_solver": r.crossOK, "second_solver_gave_no_answer_in_time": r.crossNo}
	}
	kinds := map[string]int{}
	for _, o := range r.Results {
		k := "helper or function contract"
		switch {
		case strings.Contains(o.Name, "/arm["):
			k = "executeOne arm (opcode-byte case)"
		case strings.Contains(o.Name, ".Step/"):
			k = "Step case"
		case strings.HasPrefix(o.Name, "spec."):
			k = "lemma"
		case strings.Contains(o.Name, "rel/"):
			k = "relational (two executions)"
		case o.Backend == "SSA/CFG analysis" || o.Backend == "call-graph/CFG analysis" || o.Backend == "SSA analysis" || o.Backend == "sha256":
			k = "structural / ground"
		}
		kinds[k]++
	}
	cov["obligations_by_kind"] = kinds
	as = append(as, "machine integers are bit-vectors of their exact width: no mathematical-integer abstraction; termination of loop-free code is structural; the solvers' unsat answers are trusted (cross-checked by a second solver in the thorough tier)")
	ev := map[string]interface{}{
		"property_id": r.Prop, "tier": r.Tier, "seed": r.Seed, "level": "proof",
		"coverage": cov, "assumptions": as, "wall_s": float64(int(time.Since(r.t0).Seconds()*100)) / 100,
		"violations": len(r.Violations),
	}
	data, _ := json.MarshalIndent(ev, "", " ")
	os.MkdirAll(filepath.Join(r.Out, "evidence"), 0o755)
	os.WriteFile(filepath.Join(r.Out, "evidence", r.Prop+".json"), append(data, '\n'), 0o644)
	if os.Getenv("VERIF_SLOW") != "" {
		rs := append([]*OblResult{}, r.Results...)
		sort.Slice(rs, func(i, j int) bool { return rs[i].Ms > rs[j].Ms })
		for i := 0; i < 5 && i < len(rs); i++ {
			fmt.Printf("SLOW %dms %s (%s)\n", rs[i].Ms, rs[i].Name, rs[i].Backend)
		}
	}
	fmt.Printf("%s %s: %d obligations, %d discharged, %d violations, %d undecided, %.1fs wall, %.1fs solver\n",
		r.Prop, r.Tier, obl, dis, len(r.Violations), len(r.Undecided), time.Since(r.t0).Seconds(), ss)
	for _, k := range r.Known {
		fmt.Printf("KNOWN-FINDING: property=%s %s\n", r.Prop, k)
	}
	if r.overBudget > 0 {
		msg := fmt.Sprintf("time budget exceeded: %d obligation groups were not attempted (this does not happen on the unchanged tree)", r.overBudget)
		fmt.Println("BUDGET:", msg)
		if len(r.Violations) == 0 {
			r.Undecided = append(r.Undecided, msg)
		}
	}
	if len(r.Violations) > 0 {
		return 1
	}
	if len(r.engineErr) > 0 || len(r.Undecided) > 0 || obl == 0 {
		for _, e := range r.engineErr {
			fmt.Println("ENGINE:", e)
		}
		for _, e := range r.Undecided {
			fmt.Println("UNDECIDED:", e)
		}
		if obl == 0 {
			fmt.Println("ENGINE: no obligations generated (vacuous run)")
		}
		return 2
	}
	return 0
}

func nn(s []string) []string {
	if s == nil {
		return []string{}
	}
	return s
}
