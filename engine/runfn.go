package main

// C08 / C13: obligations about (*CPU).Run.

import (
	"fmt"
	"go/types"
	"strings"

	"golang.org/x/tools/go/ssa"
)

// stepFrameCases: the request cases of Step with frame goals only (what Run's
// proof needs from Step is its frame; the functional contract is C06's).
func stepFrameCases() []stepCase {
	var cs []stepCase
	for _, sc := range stepCases(false) {
		sc.onlySafety = true
		cs = append(cs, sc)
	}
	// mode 0 with any supplied bytes: one symbolic case (frame goals fold)
	cs = append(cs, stepCase{name: "IM0/any", onlySafety: true, spec: func(x *Exec, st *State, a []Value) {
		b := x.b
		cpu := a[0].(*PtrV)
		x.pinInterrupt(st, cpu, 1)
		x.setCPU(st, cpu, b.True(), "IFF1")
		x.setCPU(st, cpu, b.Const(64, 0), "IM")
		d := x.intrData(st, cpu)
		x.assume(b.Cmp("bvuge", d.Len, b.Const(64, 1)))
	}})
	return cs
}

// establishStepFrame discharges the frame of Step (every request case) so that
// Run can call it through its contract in frame-only mode.
func (r *Run) establishStepFrame(ld *Loaded) {
	only := r.only
	r.only = ""
	r.checkArms(ld, allEncodings(), nil, true, true)
	before := len(r.Violations)
	nres := len(r.Results)
	r.checkFn(ld, "z80.(*CPU).Step", stepFrameCases(), nil, true, false, "cpu.Step()")
	r.only = only
	ok := len(r.Violations) == before && len(r.engineErr) == 0
	for _, o := range r.Results[nres:] {
		if o.Status != "discharged" {
			ok = false
		}
	}
	if c := ld.contracts["z80.(*CPU).Step"]; c != nil && ok {
		c.FrameDischarged = true
		r.Funcs[c.Key] = "hand-written contract; frame discharged in this run (functional part: C06)"
	}
}

// ------------------------------------------------------------ structural obligations on Run

type runShape struct {
	fn, watcher                 *ssa.Function
	ctxErr, canceled, ctx2, ctx *ssa.Alloc
	problems                    map[string][]string
	unrecognised                []string // the cancellation mechanism is not one of the analysed idioms: undecided
	idiom                       string
}

func isCallTo(ins ssa.Instruction, name string) *ssa.CallCommon {
	var cc *ssa.CallCommon
	switch i := ins.(type) {
	case *ssa.Call:
		cc = &i.Call
	case *ssa.Defer:
		cc = &i.Call
	case *ssa.Go:
		cc = &i.Call
	}
	if cc == nil {
		return nil
	}
	if c := cc.StaticCallee(); c != nil && fullName(c) == name {
		return cc
	}
	return nil
}

func (ld *Loaded) analyseRun() *runShape {
	rs := &runShape{problems: map[string][]string{}}
	bad := func(ob, msg string, a ...interface{}) { rs.problems[ob] = append(rs.problems[ob], fmt.Sprintf(msg, a...)) }
	rs.fn = ld.funcByKey("z80.(*CPU).Run")
	if rs.fn == nil {
		bad("Run/shape", "no function (*CPU).Run")
		return rs
	}
	fn := rs.fn
	// the watcher closure and the cells it shares
	var goIns *ssa.Go
	var mc *ssa.MakeClosure
	var cancelFn ssa.Value
	var withCancel *ssa.Call
	for _, blk := range fn.Blocks {
		for _, ins := range blk.Instrs {
			switch i := ins.(type) {
			case *ssa.Go:
				if goIns != nil {
					bad("Run/shared/protocol", "more than one go statement")
				}
				goIns = i
			case *ssa.Call:
				if isCallTo(i, "context.WithCancel") != nil {
					withCancel = i
				}
			case *ssa.Send:
				bad("Run/shared/protocol", "channel send in Run: %s", ins)
			case *ssa.Select:
				if i.Blocking {
					bad("Run/cancel/every-cycle", "Run blocks in a select: %s", ins)
				}
			case *ssa.UnOp:
				if i.Op.String() == "<-" {
					bad("Run/cancel/every-cycle", "blocking channel receive in Run: %s", ins)
				}
			}
		}
	}
	if goIns == nil {
		// no watcher: the loop may poll the context itself
		ld.analyseRunPoll(rs, bad)
		return rs
	}
	rs.idiom = "watcher goroutine + atomic flag"
	mc, _ = goIns.Call.Value.(*ssa.MakeClosure)
	if mc == nil {
		rs.unrecognised = append(rs.unrecognised, "the go statement does not start a closure")
		return rs
	}
	rs.watcher = mc.Fn.(*ssa.Function)
	// the cells are identified by their role, not by their names: the int32 cell
	// is the flag, the error cell the published error, the context cell that is
	// assigned the WithCancel context is the watcher's, another context cell the
	// caller's
	role := map[string]string{} // free variable name -> role
	for k, bd := range mc.Bindings {
		a, ok := bd.(*ssa.Alloc)
		if !ok {
			rs.unrecognised = append(rs.unrecognised, "the watcher captures a non-cell value "+bd.Name())
			continue
		}
		et := a.Type().Underlying().(*types.Pointer).Elem()
		fvn := rs.watcher.FreeVars[k].Name()
		switch {
		case types.Identical(et, types.Typ[types.Int32]) && rs.canceled == nil:
			rs.canceled, role[fvn] = a, "canceled"
		case et.String() == "error" && rs.ctxErr == nil:
			rs.ctxErr, role[fvn] = a, "ctxErr"
		case et.String() == "context.Context":
			derived := false
			for _, blk := range fn.Blocks {
				for _, ins := range blk.Instrs {
					if st, ok := ins.(*ssa.Store); ok && st.Addr == ssa.Value(a) {
						if ex, ok := st.Val.(*ssa.Extract); ok && withCancel != nil && ex.Tuple == ssa.Value(withCancel) {
							derived = true
						}
					}
				}
			}
			if derived && rs.ctx2 == nil {
				rs.ctx2, role[fvn] = a, "ctx2"
			} else if rs.ctx == nil {
				rs.ctx, role[fvn] = a, "ctx"
			} else {
				rs.unrecognised = append(rs.unrecognised, "the watcher captures a third context cell "+fvn)
			}
		default:
			bad("Run/shared/protocol", "watcher captures %s (only the two contexts, the published error and the flag are part of the verified protocol)", fvn)
		}
		if pt, ok := a.Type().Underlying().(*types.Pointer); ok {
			if named, ok := pt.Elem().(*types.Named); ok && named.Obj().Name() == "CPU" {
				bad("Run/shared/protocol", "watcher captures the CPU")
			}
		}
	}
	if rs.canceled == nil || rs.ctxErr == nil || rs.ctx2 == nil {
		rs.unrecognised = append(rs.unrecognised, "the watcher does not share an int32 flag, an error cell and the derived context with Run")
		return rs
	}
	// --- watcher body: single block: <-ctx2.Done(); ctxErr = ctx.Err(); atomic.StoreInt32(&canceled, 1)
	w := rs.watcher
	if len(w.Blocks) != 1 {
		rs.unrecognised = append(rs.unrecognised, fmt.Sprintf("the watcher has control flow (%d blocks)", len(w.Blocks)))
		return rs
	}
	storeErrAt, atomicStoreAt, recvAt := -1, -1, -1
	for _, blk := range w.Blocks {
		for k, ins := range blk.Instrs {
			switch i := ins.(type) {
			case *ssa.UnOp:
				if i.Op.String() == "<-" {
					if recvAt >= 0 {
						bad("Run/watcher/released", "the watcher blocks on more than one receive")
					}
					recvAt = k
					// must be ctx2.Done()
					okDone := false
					if c, ok := i.X.(*ssa.Call); ok && c.Call.IsInvoke() && c.Call.Method.Name() == "Done" {
						if ld, ok := c.Call.Value.(*ssa.UnOp); ok {
							if fv, ok := ld.X.(*ssa.FreeVar); ok && role[fv.Name()] == "ctx2" {
								okDone = true
							}
						}
					}
					if !okDone {
						bad("Run/watcher/released", "the watcher waits on something other than ctx2.Done()")
					}
				}
			case *ssa.Send, *ssa.Select:
				bad("Run/watcher/released", "the watcher performs a blocking channel operation (%s): it can outlive Run", ins)
			case *ssa.Store:
				if fv, ok := i.Addr.(*ssa.FreeVar); ok {
					switch role[fv.Name()] {
					case "ctxErr":
						storeErrAt = k
						okErr := false
						if c, ok := i.Val.(*ssa.Call); ok && c.Call.IsInvoke() && c.Call.Method.Name() == "Err" {
							if ld, ok := c.Call.Value.(*ssa.UnOp); ok {
								if f2, ok := ld.X.(*ssa.FreeVar); ok && (role[f2.Name()] == "ctx" || role[f2.Name()] == "ctx2") {
									okErr = true // (the derived context reports the parent's error)
								}
							}
						}
						if !okErr {
							bad("Run/cancel/value", "the watcher publishes something other than ctx.Err()")
						}
					case "canceled":
						bad("Run/shared/protocol", "plain (non-atomic) store to the cancellation flag in the watcher")
					default:
						bad("Run/shared/protocol", "the watcher writes %s", fv.Name())
					}
				}
			case *ssa.Call:
				if cc := isCallTo(i, "sync/atomic.StoreInt32"); cc != nil {
					if fv, ok := cc.Args[0].(*ssa.FreeVar); ok && role[fv.Name()] == "canceled" {
						atomicStoreAt = k
					}
				} else if !i.Call.IsInvoke() {
					bad("Run/watcher/released", "the watcher calls %s", i.Call.String())
				}
			case *ssa.Go, *ssa.Defer:
				bad("Run/watcher/released", "the watcher starts further goroutines / defers")
			}
		}
	}
	if recvAt < 0 {
		bad("Run/watcher/released", "the watcher does not wait for ctx2.Done()")
	}
	if atomicStoreAt < 0 {
		bad("Run/cancel/every-cycle", "the watcher never sets the cancellation flag atomically")
	}
	if storeErrAt < 0 || atomicStoreAt >= 0 && storeErrAt > atomicStoreAt || recvAt >= 0 && storeErrAt < recvAt {
		bad("Run/cancel/value", "ctxErr is not written (with ctx.Err()) after Done and before the atomic store of the flag")
	}
	// --- Run side: flag only through atomic.LoadInt32, ctxErr read only under flag != 0
	var loadBlk *ssa.BasicBlock
	var loadVal ssa.Value
	for _, blk := range fn.Blocks {
		for _, ins := range blk.Instrs {
			if c, ok := ins.(*ssa.Call); ok {
				if cc := isCallTo(c, "sync/atomic.LoadInt32"); cc != nil && cc.Args[0] == ssa.Value(rs.canceled) {
					loadBlk, loadVal = blk, c
				}
			}
			switch i := ins.(type) {
			case *ssa.UnOp:
				if i.Op.String() == "*" && i.X == ssa.Value(rs.canceled) {
					bad("Run/shared/protocol", "plain (non-atomic) read of the cancellation flag in Run")
				}
			case *ssa.Store:
				if i.Addr == ssa.Value(rs.canceled) {
					bad("Run/shared/protocol", "plain (non-atomic) store to the cancellation flag in Run")
				}
				if i.Addr == ssa.Value(rs.ctxErr) {
					bad("Run/shared/protocol", "Run writes ctxErr")
				}
			}
		}
	}
	if loadBlk == nil {
		bad("Run/cancel/every-cycle", "Run never reads the cancellation flag")
		return rs
	}
	// the branch on the loaded value
	var thenBlk *ssa.BasicBlock
	if ifi, ok := loadBlk.Instrs[len(loadBlk.Instrs)-1].(*ssa.If); ok {
		if bo, ok := ifi.Cond.(*ssa.BinOp); ok && (bo.X == loadVal || bo.Y == loadVal) {
			switch bo.Op.String() {
			case "!=":
				thenBlk = loadBlk.Succs[0]
			case "==":
				thenBlk = loadBlk.Succs[1]
			}
		}
	}
	if thenBlk == nil {
		bad("Run/cancel/every-cycle", "the loaded flag does not decide a branch")
		return rs
	}
	// ctxErr reads only in blocks dominated by thenBlk
	for _, blk := range fn.Blocks {
		for _, ins := range blk.Instrs {
			if u, ok := ins.(*ssa.UnOp); ok && u.Op.String() == "*" && u.X == ssa.Value(rs.ctxErr) {
				if !thenBlk.Dominates(blk) {
					bad("Run/shared/protocol", "ctxErr is read outside the branch guarded by the flag")
				}
			}
		}
	}
	// boundary: the cancelled branch returns without calling Step or touching the CPU
	retOK := false
	seen := map[*ssa.BasicBlock]bool{}
	var walk func(b *ssa.BasicBlock)
	walk = func(b *ssa.BasicBlock) {
		if seen[b] {
			return
		}
		seen[b] = true
		for _, ins := range b.Instrs {
			switch i := ins.(type) {
			case *ssa.Call:
				if c := i.Call.StaticCallee(); c != nil && strings.HasPrefix(fullName(c), modPath) {
					bad("Run/cancel/boundary", "the cancelled branch calls %s before returning", c.Name())
				}
			case *ssa.Store:
				if _, ok := i.Addr.(*ssa.FieldAddr); ok {
					bad("Run/cancel/boundary", "the cancelled branch writes a field before returning")
				}
			case *ssa.Return:
				retOK = true
				if len(i.Results) != 1 {
					bad("Run/cancel/value", "cancelled return without a value")
				}
			}
		}
		for _, s := range b.Succs {
			if s == loadBlk {
				bad("Run/cancel/boundary", "the cancelled branch loops back instead of returning")
				continue
			}
			walk(s)
		}
	}
	walk(thenBlk)
	if !retOK {
		bad("Run/cancel/boundary", "the cancelled branch does not return")
	}
	// every cycle through a call of Step passes through loadBlk
	stepBlocks := map[*ssa.BasicBlock]bool{}
	for _, blk := range fn.Blocks {
		for _, ins := range blk.Instrs {
			if c, ok := ins.(*ssa.Call); ok {
				if cal := c.Call.StaticCallee(); cal != nil && strings.HasPrefix(fullName(cal), modPath) && cal.Name() != "warnf" {
					stepBlocks[blk] = true
				}
			}
		}
	}
	for sb := range stepBlocks {
		// is there a cycle sb -> ... -> sb avoiding loadBlk?
		vis := map[*ssa.BasicBlock]bool{}
		var dfs func(b *ssa.BasicBlock) bool
		dfs = func(b *ssa.BasicBlock) bool {
			for _, s := range b.Succs {
				if s == loadBlk {
					continue
				}
				if s == sb {
					return true
				}
				if !vis[s] {
					vis[s] = true
					if dfs(s) {
						return true
					}
				}
			}
			return false
		}
		if sb != loadBlk && dfs(sb) {
			bad("Run/cancel/every-cycle", "a cycle executes CPU code (block %d) without testing the cancellation flag", sb.Index)
		}
	}
	// released: cancel from the same WithCancel is deferred (dominating every return) and ctx2 cell holds its context
	if withCancel == nil {
		bad("Run/watcher/released", "no context.WithCancel: nothing releases the watcher")
		return rs
	}
	deferred := false
	for _, blk := range fn.Blocks {
		for _, ins := range blk.Instrs {
			if d, ok := ins.(*ssa.Defer); ok {
				if ex, ok := d.Call.Value.(*ssa.Extract); ok && ex.Tuple == ssa.Value(withCancel) && ex.Index == 1 {
					cancelFn = d.Call.Value
					deferred = true
					// the defer must dominate the go statement and every return
					for _, b2 := range fn.Blocks {
						for _, i2 := range b2.Instrs {
							if _, ok := i2.(*ssa.Return); ok && !blk.Dominates(b2) && b2.Comment != "recover" {
								bad("Run/watcher/released", "a return is not covered by the deferred cancel")
							}
						}
					}
				}
			}
		}
	}
	_ = cancelFn
	if !deferred {
		bad("Run/watcher/released", "the cancel function of context.WithCancel is not deferred: the watcher is leaked when Run returns without cancellation")
	}
	// every return runs the defers
	for _, blk := range fn.Blocks {
		if blk.Comment == "recover" {
			continue
		}
		for k, ins := range blk.Instrs {
			if _, ok := ins.(*ssa.Return); ok {
				has := false
				for _, p := range blk.Instrs[:k] {
					if _, ok := p.(*ssa.RunDefers); ok {
						has = true
					}
				}
				if !has {
					bad("Run/watcher/released", "a return without rundefers")
				}
			}
		}
	}
	// ctx2 cell holds the WithCancel context
	okCtx2 := false
	for _, blk := range fn.Blocks {
		for _, ins := range blk.Instrs {
			if s, ok := ins.(*ssa.Store); ok && s.Addr == ssa.Value(rs.ctx2) {
				if ex, ok := s.Val.(*ssa.Extract); ok && ex.Tuple == ssa.Value(withCancel) && ex.Index == 0 {
					okCtx2 = true
				} else {
					bad("Run/watcher/released", "ctx2 is assigned something other than the WithCancel context")
				}
			}
		}
	}
	if !okCtx2 {
		bad("Run/watcher/released", "the watcher does not wait on the context that the deferred cancel cancels")
	}
	return rs
}

// analyseRunPoll: Run without a watcher goroutine.  Recognised: the loop polls
// the context itself - a non-blocking select on ctx.Done() or a call of
// ctx.Err() - and returns ctx.Err().  Obligations (same names as for the
// watcher idiom): every cycle that executes CPU code passes the poll; the
// cancelled branch returns the context's error without executing CPU code
// (a whole number of Steps); with no goroutine and no shared cell the
// released / protocol obligations hold trivially.
func (ld *Loaded) analyseRunPoll(rs *runShape, bad func(ob, msg string, a ...interface{})) {
	fn := rs.fn
	isCtx := func(v ssa.Value) bool { return v != nil && v.Type().String() == "context.Context" }
	var pollBlk *ssa.BasicBlock
	for _, blk := range fn.Blocks {
		for _, ins := range blk.Instrs {
			switch i := ins.(type) {
			case *ssa.Select:
				if !i.Blocking && len(i.States) == 1 {
					if c, ok := i.States[0].Chan.(*ssa.Call); ok && c.Call.IsInvoke() && c.Call.Method.Name() == "Done" && isCtx(c.Call.Value) {
						pollBlk = blk
					}
				}
			case *ssa.Call:
				if i.Call.IsInvoke() && i.Call.Method.Name() == "Err" && isCtx(i.Call.Value) && pollBlk == nil {
					// ctx.Err() used as the poll (its result decides a branch)
					for _, ref := range *i.Referrers() {
						if bo, ok := ref.(*ssa.BinOp); ok && (bo.Op.String() == "!=" || bo.Op.String() == "==") {
							pollBlk = blk
						}
					}
				}
			}
		}
	}
	if pollBlk == nil {
		bad("Run/cancel/every-cycle", "no watcher goroutine and no poll of the context: cancellation cannot be noticed")
		return
	}
	rs.idiom = "context polled at the loop head"
	// returns of the context's error
	var cancelRets []*ssa.BasicBlock
	for _, blk := range fn.Blocks {
		for _, ins := range blk.Instrs {
			if ret, ok := ins.(*ssa.Return); ok && len(ret.Results) == 1 {
				v := ret.Results[0]
				if c, ok := v.(*ssa.Call); ok && c.Call.IsInvoke() && c.Call.Method.Name() == "Err" && isCtx(c.Call.Value) {
					cancelRets = append(cancelRets, blk)
				}
			}
		}
	}
	if len(cancelRets) == 0 {
		rs.unrecognised = append(rs.unrecognised, "the context is polled but no return hands back ctx.Err() directly")
		return
	}
	// boundary: no CPU code between the poll and a cancelled return (every path
	// from the poll block to the return block)
	moduleCall := func(blk *ssa.BasicBlock) string {
		for _, ins := range blk.Instrs {
			if c, ok := ins.(*ssa.Call); ok {
				if cal := c.Call.StaticCallee(); cal != nil && strings.HasPrefix(fullName(cal), modPath) && cal.Name() != "warnf" {
					return cal.Name()
				}
			}
		}
		return ""
	}
	for _, rb := range cancelRets {
		// blocks on a path pollBlk -> rb that do not pass pollBlk again
		reach := map[*ssa.BasicBlock]bool{}
		var fwd func(b *ssa.BasicBlock)
		fwd = func(b *ssa.BasicBlock) {
			for _, s2 := range b.Succs {
				if s2 != pollBlk && !reach[s2] {
					reach[s2] = true
					fwd(s2)
				}
			}
		}
		fwd(pollBlk)
		back := map[*ssa.BasicBlock]bool{rb: true}
		var bwd func(b *ssa.BasicBlock)
		bwd = func(b *ssa.BasicBlock) {
			for _, p := range b.Preds {
				if p != pollBlk && !back[p] {
					back[p] = true
					bwd(p)
				}
			}
		}
		bwd(rb)
		if !reach[rb] {
			bad("Run/cancel/boundary", "a return of ctx.Err() is not reached from the poll of the context")
		}
		for b2 := range reach {
			if back[b2] {
				if n := moduleCall(b2); n != "" {
					bad("Run/cancel/boundary", "CPU code (%s) may run between the poll of the context and the cancelled return", n)
				}
			}
		}
	}
	// every cycle through CPU code passes the poll
	for _, sb := range fn.Blocks {
		if moduleCall(sb) == "" || sb == pollBlk {
			continue
		}
		vis := map[*ssa.BasicBlock]bool{}
		var dfs func(b *ssa.BasicBlock) bool
		dfs = func(b *ssa.BasicBlock) bool {
			for _, s2 := range b.Succs {
				if s2 == pollBlk {
					continue
				}
				if s2 == sb {
					return true
				}
				if !vis[s2] {
					vis[s2] = true
					if dfs(s2) {
						return true
					}
				}
			}
			return false
		}
		if dfs(sb) {
			bad("Run/cancel/every-cycle", "a cycle executes CPU code (block %d) without polling the context", sb.Index)
		}
	}
	// the poll itself must not come after CPU code in its own block
	seenCall := false
	for _, ins := range pollBlk.Instrs {
		if c, ok := ins.(*ssa.Call); ok {
			if cal := c.Call.StaticCallee(); cal != nil && strings.HasPrefix(fullName(cal), modPath) {
				seenCall = true
			}
		}
		if _, ok := ins.(*ssa.Select); ok && seenCall {
			rs.unrecognised = append(rs.unrecognised, "CPU code and the poll share a block")
		}
	}
}

// relyOnRunProtocol: Run's functional proof treats the cells it shares with
// its watcher as arbitrary, except that the published error is non-nil once
// the flag is seen (rely).  That rely is what C13's protocol obligations
// establish for the mechanisms they know; for any other mechanism the proof
// of Run rests on nothing and the check is undecided.
func (r *Run) relyOnRunProtocol(ld *Loaded, own bool) {
	rs := ld.analyseRun()
	if len(rs.unrecognised) > 0 {
		r.Undecided = append(r.Undecided, "Run's proof relies on the cancellation protocol between Run and its watcher, which the structural analysis (C13) does not recognise here: "+strings.Join(rs.unrecognised, "; "))
	}
	// the premise itself is an obligation of every property whose Run proof
	// rests on it (not only of C13): a watcher that captures or writes the CPU
	// breaks "Run performs the transitions of repeated Step" as well
	probs := append([]string{}, rs.problems["Run/shared/protocol"]...)
	probs = append(probs, rs.problems["Run/shape"]...)
	if len(rs.unrecognised) > 0 && len(probs) == 0 {
		return
	}
	if !own {
		// a property that only uses Run (C18): with the premise gone its Run
		// proof says nothing - undecided, the violation is C08's / C13's to report
		if len(probs) > 0 {
			r.Undecided = append(r.Undecided, "Run's proof relies on the cancellation protocol between Run and its watcher, which does not hold here (reported by C08 and C13): "+strings.Join(probs, "; "))
		}
		return
	}
	r.structural(ld, "Run/shared/protocol", probs, "the watcher goroutine captures only the two contexts, the published error and the flag; the flag is accessed atomically; the error is read only behind the flag")
}

func (r *Run) structural(ld *Loaded, name string, probs []string, okNote string) {
	o := &OblResult{Name: "z80.(*CPU)." + name, Layer: "P", Backend: "SSA/CFG analysis"}
	if len(probs) == 1 && strings.HasPrefix(probs[0], "UNRECOGNISED: ") {
		// the shape the structural argument is written for is not there.  If
		// Run's contract - whose [property] invariant "not halted at the loop
		// head" says the same thing deductively - was discharged in this run,
		// that stands in; otherwise the obligation is undecided, not violated.
		if c := ld.contracts["z80.(*CPU).Run"]; c != nil && c.Status == "discharged" && strings.Contains(name, "halt/returns") {
			o.Status, o.Backend = "discharged", "Run's contract (invariant !cpu.HALT at the loop head, discharged in this run)"
			r.add(o)
			return
		}
		r.mu.Lock()
		r.Undecided = append(r.Undecided, "z80.(*CPU)."+name+": "+strings.TrimPrefix(probs[0], "UNRECOGNISED: "))
		r.mu.Unlock()
		return
	}
	if len(probs) == 0 {
		o.Status = "discharged"
		o.Note = okNote
		r.add(o)
		return
	}
	o.Status = "failed"
	o.Note = strings.Join(probs, "; ")
	o.res = &SolveResult{Status: "structure", Raw: o.Note, Backend: "SSA/CFG analysis"}
	r.add(o)
	r.reportFailures(ld, []*OblResult{o}, nil)
}

// runFootprint: Run's own instructions touch only cpu.HALT (write), cpu.BreakPoints
// and cpu.PC (reads); in particular it holds no copy of cpu.Interrupt, so a request
// raised by a callback is seen by the next Step exactly as by a hand-written loop.
func (ld *Loaded) runFootprint() []string {
	fn := ld.funcByKey("z80.(*CPU).Run")
	var probs []string
	if fn == nil {
		return []string{"no function (*CPU).Run"}
	}
	var fieldName func(fa *ssa.FieldAddr) string
	fieldName = func(fa *ssa.FieldAddr) string {
		st := fa.X.Type().Underlying().(*types.Pointer).Elem().Underlying().(*types.Struct)
		n := st.Field(fa.Field).Name()
		if in, ok := fa.X.(*ssa.FieldAddr); ok {
			return fieldName(in) + "." + n
		}
		return n
	}
	allowedRead := map[string]bool{"HALT": true, "BreakPoints": true, "States.SPR.PC": true, "States": true, "States.SPR": true}
	onCPU := func(fa *ssa.FieldAddr) bool {
		var root ssa.Value = fa
		for {
			f, ok := root.(*ssa.FieldAddr)
			if !ok {
				break
			}
			root = f.X
		}
		pt, ok := root.Type().Underlying().(*types.Pointer)
		if !ok {
			return false
		}
		n, ok := pt.Elem().(*types.Named)
		return ok && n.Obj().Name() == "CPU"
	}
	// Run and the helpers it calls (extracted predicates such as "PC is on a
	// break point"), but not Step and what lies below it
	seen := map[*ssa.Function]bool{}
	callsStep := false
	var visit func(f *ssa.Function)
	visit = func(f *ssa.Function) {
		if seen[f] || f.Blocks == nil {
			return
		}
		seen[f] = true
		who := "Run"
		if f != fn {
			who = "Run (through " + f.Name() + ")"
		}
		for _, blk := range f.Blocks {
			for _, ins := range blk.Instrs {
				switch i := ins.(type) {
				case *ssa.Store:
					if fa, ok := i.Addr.(*ssa.FieldAddr); ok && onCPU(fa) {
						if n := fieldName(fa); n != "HALT" {
							probs = append(probs, who+" writes cpu."+n)
						} else if c, ok := i.Val.(*ssa.Const); !ok || c.Value == nil || c.Value.String() != "false" {
							probs = append(probs, who+" writes cpu.HALT with something other than false")
						}
					}
				case *ssa.UnOp:
					if fa, ok := i.X.(*ssa.FieldAddr); ok && i.Op.String() == "*" && onCPU(fa) {
						if n := fieldName(fa); !allowedRead[n] {
							probs = append(probs, who+" reads cpu."+n)
						}
					}
				case *ssa.Call:
					if c := i.Call.StaticCallee(); c != nil && strings.HasPrefix(fullName(c), modPath) {
						if c.Name() == "Step" {
							callsStep = true
							continue
						}
						if ld.logOnly(c) {
							continue
						}
						visit(c)
					}
				}
			}
		}
	}
	visit(fn)
	if !callsStep {
		// Step written out inside Run (or replaced by something else): "the loop
		// body is one call of Step plus tests" is not the shape of this Run
		return []string{"UNRECOGNISED: Run does not call Step; the obligation 'Run adds nothing to repeated Step calls' is stated for a Run that does"}
	}
	return probs
}

// runHaltReturns: on the path on which the halted indication is found set
// after a Step, Run reaches a return without going round the loop again
// ("returns in the iteration that executes HALT"; contracts prove partial
// correctness only, this is the one liveness fact the statements need).
func (ld *Loaded) runHaltReturns() []string {
	probs, found := ld.runHaltReturns2()
	if !found {
		probs = append(probs, "UNRECOGNISED: Run does not test the halted indication after Step in a form the analysis knows")
	}
	return probs
}

// haltTest: does the boolean SSA value equal (pos) / negate (!pos) the halted
// indication - a load of cpu.HALT, a call of a helper that returns one, or a
// negation / comparison with a constant of such a value?
func (ld *Loaded) haltTest(v ssa.Value, depth int) (is, pos bool) {
	if depth > 4 {
		return false, false
	}
	switch u := v.(type) {
	case *ssa.UnOp:
		switch u.Op.String() {
		case "*":
			if fa, ok := u.X.(*ssa.FieldAddr); ok {
				st := fa.X.Type().Underlying().(*types.Pointer).Elem().Underlying().(*types.Struct)
				if st.Field(fa.Field).Name() == "HALT" {
					return true, true
				}
			}
		case "!":
			is, pos := ld.haltTest(u.X, depth+1)
			return is, !pos
		}
	case *ssa.BinOp:
		if c, ok := u.Y.(*ssa.Const); ok && c.Value != nil && (u.Op.String() == "==" || u.Op.String() == "!=") {
			is, pos := ld.haltTest(u.X, depth+1)
			if is {
				same := (c.Value.String() == "true") == (u.Op.String() == "==")
				return true, pos == same
			}
		}
	case *ssa.Call:
		c := u.Call.StaticCallee()
		if c == nil || c.Blocks == nil || !strings.HasPrefix(fullName(c), modPath) {
			return false, false
		}
		first, res := true, false
		for _, blk := range c.Blocks {
			for _, ins := range blk.Instrs {
				if ret, ok := ins.(*ssa.Return); ok {
					if len(ret.Results) != 1 {
						return false, false
					}
					is, pos := ld.haltTest(ret.Results[0], depth+1)
					if !is || !first && pos != res {
						return false, false
					}
					first, res = false, pos
				}
			}
		}
		return !first, res
	}
	return false, false
}

func (ld *Loaded) runHaltReturns2() (probs []string, found bool) {
	fn := ld.funcByKey("z80.(*CPU).Run")
	if fn == nil {
		return []string{"no function (*CPU).Run"}, true
	}
	fi := analyze(fn)
	for _, blk := range fn.Blocks {
		ifi, ok := blk.Instrs[len(blk.Instrs)-1].(*ssa.If)
		if !ok {
			continue
		}
		is, pos := ld.haltTest(ifi.Cond, 0)
		if !is {
			continue
		}
		found = true
		// from the "halted" successor every path must return before any loop header
		seen := map[*ssa.BasicBlock]bool{}
		var walk func(b *ssa.BasicBlock)
		walk = func(b *ssa.BasicBlock) {
			if seen[b] {
				return
			}
			seen[b] = true
			if fi.back[b] != nil {
				probs = append(probs, fmt.Sprintf("with the halted indication set after a Step, Run can go round its loop again (block %d) instead of returning", b.Index))
				return
			}
			for _, s := range b.Succs {
				walk(s)
			}
		}
		if pos {
			walk(blk.Succs[0])
		} else {
			walk(blk.Succs[1])
		}
	}
	return probs, found
}

func init() {
	checks["C08"] = func(ld *Loaded, r *Run) {
		r.relyOnRunProtocol(ld, true)
		r.verifyHelpers(ld, func(c *Contract) bool { return !ownsProp(c, "C08") })
		r.establishStepFrame(ld)
		r.verifyHelpers(ld, propFilter("C08"))
		r.structural(ld, "Run/footprint", ld.runFootprint(), "Run itself writes only cpu.HALT=false, reads only BreakPoints, PC, HALT, and calls only Step")
		r.structural(ld, "Run/halt/returns", ld.runHaltReturns(), "")
		r.checkLemmas(ld, "C08")
		r.Assumptions["C08: the watcher goroutine touches only its own cells (obligation Run/shared/protocol, also part of C13); loads from those cells return arbitrary values in Run's proof"] = true
		r.Assumptions["C08: 'performs the same transitions as repeated Step' = the loop body's only effect on the CPU is one call of Step (frame of the loop + footprint); the induction over iterations is the loop rule"] = true
	}
	checks["C13"] = func(ld *Loaded, r *Run) {
		rs := ld.analyseRun()
		if len(rs.unrecognised) > 0 {
			// neither of the analysed cancellation mechanisms: these structural
			// obligations cannot be stated for it - undecided, not a violation
			r.Undecided = append(r.Undecided, "Run's cancellation mechanism is not one the structural analysis knows (watcher goroutine + atomic flag, or polling the context at the loop head): "+strings.Join(rs.unrecognised, "; "))
		}
		r.Notes["run_cancellation_idiom"] = rs.idiom
		for _, ob := range []string{"Run/cancel/boundary", "Run/cancel/every-cycle", "Run/cancel/value", "Run/watcher/released", "Run/shared/protocol"} {
			probs := rs.problems[ob]
			probs = append(probs, rs.problems["Run/shape"]...)
			if len(rs.unrecognised) > 0 && len(probs) == 0 {
				continue
			}
			r.structural(ld, ob, probs, "")
		}
		r.checkStructure(ld, "z80.(*CPU).Step")
		r.Assumptions["C13: wall-clock promptness, scheduler fairness and what the race detector would observe are not decided by contracts; decided instead: after the flag is published at most one more Step runs (every-cycle), each Step is loop-free (structure), the watcher ends after any return of Run (released), the only shared cells follow the atomic publication idiom (protocol)"] = true
		r.Assumptions["C13: stubs: context.WithCancel returns a context that is done once cancel is called or the parent is done; sync/atomic operations are sequentially consistent"] = true
	}
}
