package main

// C10: footprint obligations.  Every load and store of every function below
// Step and Run is rooted at a parameter / receiver object, a local, or a
// package-level variable that is never written outside package
// initialisation.  Together with Step's functional contract this gives:
// no hidden state outside the CPU object, and - by separation - CPUs on their
// own memories share nothing to race on.

import (
	"fmt"
	"sort"
	"strings"

	"golang.org/x/tools/go/ssa"
)

func (ld *Loaded) footprint(roots ...string) (nfuncs int, globalsRead []string, problems []string) {
	seen := map[*ssa.Function]bool{}
	reads := map[string]bool{}
	rootGlobal := func(v ssa.Value) *ssa.Global {
		for {
			switch a := v.(type) {
			case *ssa.Global:
				return a
			case *ssa.FieldAddr:
				v = a.X
			case *ssa.IndexAddr:
				v = a.X
			default:
				return nil
			}
		}
	}
	var walk func(f *ssa.Function)
	walk = func(f *ssa.Function) {
		if seen[f] || f.Blocks == nil {
			return
		}
		seen[f] = true
		nfuncs++
		for _, blk := range f.Blocks {
			for _, ins := range blk.Instrs {
				switch i := ins.(type) {
				case *ssa.Store:
					if g := rootGlobal(i.Addr); g != nil {
						problems = append(problems, fmt.Sprintf("%s writes the package-level variable %s", fnKey(f), g.Name()))
					}
				case *ssa.UnOp:
					if g := rootGlobal(i.X); g != nil && i.Op.String() == "*" {
						reads[g.Name()] = true
						if ld.storedGlobals[g] {
							problems = append(problems, fmt.Sprintf("%s reads the package-level variable %s, which is written outside package initialisation", fnKey(f), g.Name()))
						}
					}
				case *ssa.MapUpdate:
					if u, ok := i.Map.(*ssa.UnOp); ok {
						if g := rootGlobal(u.X); g != nil {
							problems = append(problems, fmt.Sprintf("%s updates the package-level map %s", fnKey(f), g.Name()))
						}
					}
				}
				var cc *ssa.CallCommon
				switch i := ins.(type) {
				case *ssa.Call:
					cc = &i.Call
				case *ssa.Defer:
					cc = &i.Call
				case *ssa.Go:
					cc = &i.Call
					if mc, ok := i.Call.Value.(*ssa.MakeClosure); ok {
						walk(mc.Fn.(*ssa.Function))
					}
				}
				if cc == nil {
					continue
				}
				for _, a := range cc.Args {
					if g := rootGlobal(a); g != nil && !strings.HasPrefix(fullName(cc.StaticCallee()), "log.") {
						problems = append(problems, fmt.Sprintf("%s passes the address of the package-level variable %s to a call", fnKey(f), g.Name()))
					}
				}
				if cc.IsInvoke() {
					if m := ld.pkgs[modPath].Type("im0data"); m != nil {
						ms := ld.prog.MethodSets.MethodSet(ptrTo(m.Type()))
						if sel := ms.Lookup(cc.Method.Pkg(), cc.Method.Name()); sel != nil {
							if fn := ld.prog.MethodValue(sel); fn != nil {
								walk(fn)
							}
						}
					}
					continue
				}
				if c := cc.StaticCallee(); c != nil && c.Pkg != nil && strings.HasPrefix(c.Pkg.Pkg.Path(), modPath) {
					walk(c)
				}
			}
		}
	}
	for _, k := range roots {
		if fn := ld.funcByKey(k); fn != nil {
			walk(fn)
		} else {
			problems = append(problems, "no function "+k)
		}
	}
	for g := range reads {
		globalsRead = append(globalsRead, g)
	}
	sort.Strings(globalsRead)
	sort.Strings(problems)
	return
}

func init() {
	checks["C10"] = func(ld *Loaded, r *Run) {
		r.verifyHelpers(ld, nil)
		// (a) functional determinism: Step's contract on the cases that do not need
		// the 1786-way mode-0 split (that split is C06's)
		only := r.only
		r.only = ""
		r.checkArms(ld, allEncodings(), nil, true, true)
		r.only = only
		var cs []stepCase
		for _, sc := range stepCases(false) {
			cs = append(cs, sc)
		}
		r.checkFn(ld, "z80.(*CPU).Step", cs, nil, true, false, "cpu.Step()")
		// (b) the reference post-state depends on the snapshot only
		r.checkLemmas(ld, "C10")
		// (c) footprint
		n, gr, probs := ld.footprint("z80.(*CPU).Step", "z80.(*CPU).Run")
		o := &OblResult{Name: "z80.(*CPU).Step+Run/footprint", Layer: "P", Backend: "SSA analysis"}
		if len(probs) == 0 {
			o.Status = "discharged"
			r.Notes["footprint"] = fmt.Sprintf("%d functions below Step and Run; package-level variables read: %v (none is written outside initialisation); none written", n, gr)
			r.add(o)
		} else {
			o.Status, o.Note = "failed", strings.Join(probs, "; ")
			o.res = &SolveResult{Status: "structure", Raw: o.Note, Backend: "SSA analysis"}
			r.add(o)
			r.reportFailures(ld, []*OblResult{o}, nil)
		}
		r.Assumptions["C10: isolation and race-freedom between CPUs follow from the footprint by separation (goroutines touching disjoint memory cannot race, Go memory model); no schedule is explored; package log's internal lock is trusted"] = true
		r.Assumptions["C10: an unexported field added to CPU is a free unknown of every pre-state: a Step whose outcome depends on it fails Step's functional contract"] = true
	}
}
