package main

// The modular call rule (a caller sees only the callee's contract) and the
// verification of a function body against its own contract.

import (
	"fmt"
	"go/types"
	"strings"

	"golang.org/x/tools/go/ssa"
)

// ---------------------------------------------------------------- substitution

func (b *B) rebuild(t *Term, args []*Term) *Term {
	switch t.Op {
	case "bvadd", "bvsub", "bvand", "bvor", "bvxor", "bvmul", "bvshl", "bvlshr", "bvashr", "bvurem", "bvudiv":
		return b.Bin(t.Op, args[0], args[1])
	case "bvult", "bvule", "bvugt", "bvuge", "bvslt", "bvsle", "bvsgt", "bvsge":
		return b.Cmp(t.Op, args[0], args[1])
	case "=":
		return b.Eq(args[0], args[1])
	case "not":
		return b.Not(args[0])
	case "and":
		return b.And(args[0], args[1])
	case "or":
		return b.Or(args[0], args[1])
	case "ite":
		return b.Ite(args[0], args[1], args[2])
	case "extract":
		return b.Extract(int(t.Val>>16), int(t.Val&0xffff), args[0])
	case "zext":
		return b.ZExt(t.S.W, args[0])
	case "sext":
		return b.SExt(t.S.W, args[0])
	case "concat":
		return b.Concat(args[0], args[1])
	case "select":
		return b.Select(args[0], args[1])
	case "store":
		return b.Store(args[0], args[1], args[2])
	case "bvnot":
		return b.BVNot(args[0])
	case "constarr":
		return b.ConstArr(t.S, args[0])
	case "forall":
		return b.Forall(t.Bound, args[0])
	}
	return b.mk(&Term{Op: t.Op, Args: args, S: t.S, Val: t.Val, Name: t.Name})
}

func (b *B) Subst(t *Term, m map[*Term]*Term, memo map[*Term]*Term) *Term {
	if r, ok := m[t]; ok {
		return r
	}
	if len(t.Args) == 0 {
		return t
	}
	if r, ok := memo[t]; ok {
		return r
	}
	changed := false
	args := make([]*Term, len(t.Args))
	for i, a := range t.Args {
		args[i] = b.Subst(a, m, memo)
		if args[i] != a {
			changed = true
		}
	}
	r := t
	if changed {
		r = b.rebuild(t, args)
	}
	memo[t] = r
	return r
}

func occurs(v, t *Term, memo map[*Term]bool) bool {
	if t == v {
		return true
	}
	if len(t.Args) == 0 {
		return false
	}
	if r, ok := memo[t]; ok {
		return r
	}
	r := false
	for _, a := range t.Args {
		if occurs(v, a, memo) {
			r = true
			break
		}
	}
	memo[t] = r
	return r
}

func (x *Exec) substV(v Value, m map[*Term]*Term, memo map[*Term]*Term) Value {
	switch u := v.(type) {
	case *Term:
		return x.b.Subst(u, m, memo)
	case *StructV:
		r := &StructV{F: make([]Value, len(u.F))}
		for i := range u.F {
			r.F[i] = x.substV(u.F[i], m, memo)
		}
		return r
	case *TupleV:
		r := &TupleV{E: make([]Value, len(u.E))}
		for i := range u.E {
			r.E[i] = x.substV(u.E[i], m, memo)
		}
		return r
	case *SliceV:
		return &SliceV{Obj: u.Obj, Path: u.Path, Off: x.b.Subst(u.Off, m, memo), Len: x.b.Subst(u.Len, m, memo), Cap: x.b.Subst(u.Cap, m, memo)}
	case *PtrV:
		if u.AltC != nil {
			return &PtrV{AltC: x.b.Subst(u.AltC, m, memo), AltA: x.substV(u.AltA, m, memo).(*PtrV), AltB: x.substV(u.AltB, m, memo).(*PtrV)}
		}
		if u.Nil != nil {
			return &PtrV{Obj: u.Obj, Path: u.Path, Nil: x.b.Subst(u.Nil, m, memo)}
		}
	case *IfaceV:
		if u.AltC != nil {
			return &IfaceV{AltC: x.b.Subst(u.AltC, m, memo), AltA: x.substV(u.AltA, m, memo).(*IfaceV), AltB: x.substV(u.AltB, m, memo).(*IfaceV), T: u.T}
		}
		if u.Nil != nil {
			return &IfaceV{Nil: x.b.Subst(u.Nil, m, memo), Dyn: u.Dyn, DynT: u.DynT, Opaque: u.Opaque, T: u.T}
		}
	case *MapV:
		if u.Nil != nil {
			return &MapV{Obj: u.Obj, Nil: x.b.Subst(u.Nil, m, memo), T: u.T}
		}
	}
	return v
}

func splitAnd(t *Term, out []*Term) []*Term {
	if t.Op == "and" {
		out = splitAnd(t.Args[0], out)
		return splitAnd(t.Args[1], out)
	}
	return append(out, t)
}

// ---------------------------------------------------------------- predicates

type twins struct {
	old Heap
	tw  map[*Object]*Object
}

func (x *Exec) twinObj(o *Object, t *twins, h Heap) *Object {
	if o == nil {
		return nil
	}
	if n, ok := t.tw[o]; ok {
		return n
	}
	ov, ok := t.old[o]
	if !ok {
		return o
	}
	n := x.newObj("old:"+o.name, o.T)
	t.tw[o] = n
	h[n] = ov
	return n
}

func (x *Exec) twinVal(v Value, t *twins, h Heap) Value {
	switch u := v.(type) {
	case *PtrV:
		if u.AltC != nil {
			return &PtrV{AltC: u.AltC, AltA: x.twinVal(u.AltA, t, h).(*PtrV), AltB: x.twinVal(u.AltB, t, h).(*PtrV)}
		}
		if u.Obj == nil {
			return u
		}
		return &PtrV{Obj: x.twinObj(u.Obj, t, h), Path: u.Path, Nil: u.Nil}
	case *SliceV:
		if u.Obj == nil {
			return u
		}
		return &SliceV{Obj: x.twinObj(u.Obj, t, h), Path: u.Path, Off: u.Off, Len: u.Len, Cap: u.Cap}
	case *MapV:
		if u.Obj == nil {
			return u
		}
		return &MapV{Obj: x.twinObj(u.Obj, t, h), Nil: u.Nil, T: u.T}
	case *IfaceV:
		if u.AltC != nil {
			return &IfaceV{AltC: u.AltC, AltA: x.twinVal(u.AltA, t, h).(*IfaceV), AltB: x.twinVal(u.AltB, t, h).(*IfaceV), T: u.T}
		}
		if u.Dyn != nil {
			return &IfaceV{Nil: u.Nil, Dyn: x.twinVal(u.Dyn, t, h), DynT: u.DynT, T: u.T}
		}
	}
	return v
}

// evalPred runs a compiled clause.  args are the entry values of the
// parameters (receiver first); old is the pre-state heap; cur the state in
// which the clause is evaluated.
func (x *Exec) evalPred(fn *ssa.Function, args []Value, old Heap, cur *State, loopVars []Value, results []Value) Value {
	hh := cur.h.clone()
	t := &twins{old: old, tw: map[*Object]*Object{}}
	var a []Value
	for _, v := range args {
		a = append(a, v, x.twinVal(v, t, hh))
	}
	gp := &PtrV{Obj: x.gobj}
	if x.gobj == nil {
		gp = &PtrV{}
	}
	a = append(a, gp, x.twinVal(gp, t, hh))
	a = append(a, loopVars...)
	a = append(a, results...)
	if len(a) != len(fn.Params) {
		panic(fmt.Sprintf("predicate %s: %d args for %d params", fn.Name(), len(a), len(fn.Params)))
	}
	save := x.useContracts
	x.useContracts = false
	x.inSpec++
	rv, _ := x.run(fn, a, &State{h: hh, facts: x.seedFacts}, x.b.True())
	x.inSpec--
	x.useContracts = save
	return rv
}

type modEntry struct {
	obj   *Object
	path  []PE
	whole bool // contents of a slice/map object
}

func (x *Exec) resolveMods(cls []*Clause, args []Value, st *State, loopVars []Value) []modEntry {
	var out []modEntry
	for _, cl := range cls {
		rv := x.evalPred(cl.Fn, args, st.h, st, loopVars, nil)
		iv, ok := rv.(*IfaceV)
		if !ok || iv.Dyn == nil {
			unsupported("modifies clause %q does not denote a location", cl.Text)
		}
		switch d := iv.Dyn.(type) {
		case *PtrV:
			if d.Obj == nil {
				unsupported("modifies clause %q denotes nil", cl.Text)
			}
			out = append(out, modEntry{obj: d.Obj, path: d.Path})
		case *SliceV:
			if d.Obj != nil {
				out = append(out, modEntry{obj: d.Obj, path: d.Path, whole: true})
			}
		case *MapV:
			if d.Obj != nil {
				out = append(out, modEntry{obj: d.Obj, whole: true})
			}
		default:
			unsupported("modifies clause %q: %T", cl.Text, iv.Dyn)
		}
	}
	return out
}

func pathPrefix(p, q []PE) bool { // p is a prefix of q (index steps match anything)
	if len(p) > len(q) {
		return false
	}
	for i := range p {
		if p[i].Index != nil || q[i].Index != nil {
			return true
		}
		if p[i].Field != q[i].Field {
			return false
		}
	}
	return true
}

// havoc replaces the modified locations by fresh unknowns; returns the fresh terms.
func (x *Exec) havoc(mods []modEntry, st *State, tag string) map[*Term]bool {
	fresh := map[*Term]bool{}
	var mk func(v Value, name string) Value
	mk = func(v Value, name string) Value {
		switch u := v.(type) {
		case *Term:
			f := x.b.Fresh(name, u.S)
			fresh[f] = true
			return f
		case *StructV:
			r := &StructV{F: make([]Value, len(u.F))}
			for i := range u.F {
				r.F[i] = mk(u.F[i], fmt.Sprintf("%s_%d", name, i))
			}
			return r
		case *PtrV:
			// a pointer-valued location: may become nil or stay
			if u.Obj == nil {
				return u
			}
			f := x.b.Fresh(name+"_isnil", BoolS())
			fresh[f] = true
			return &PtrV{Obj: u.Obj, Path: u.Path, Nil: f}
		case nil:
			return nil
		}
		unsupported("havoc of %T", v)
		return nil
	}
	for k, m := range mods {
		name := fmt.Sprintf("hv_%s_%d", tag, k)
		n := len(m.path)
		if n > 0 && m.path[n-1].Index != nil && !m.whole {
			arr := x.getPath(st.h[m.obj], m.path[:n-1]).(*Term)
			f := x.b.Fresh(name, arr.S.E)
			fresh[f] = true
			st.h[m.obj] = x.setPath(st.h[m.obj], m.path, f)
			continue
		}
		cur := x.getPath(st.h[m.obj], m.path)
		st.h[m.obj] = x.setPath(st.h[m.obj], m.path, mk(cur, name))
	}
	return fresh
}

// applyContract is the call rule for a callee whose contract was discharged
// in this run: preconditions become obligations, the frame is havocked, the
// postconditions are assumed.
func (x *Exec) applyContract(c *Contract, args []Value, st *State, pc *Term) Value {
	b := x.b
	x.applied++
	x.appliedNames[c.Key]++
	pre := st.h.clone()
	var preObl []NamedTerm
	for i, cl := range c.Requires {
		saveO := x.obligs
		r := x.evalPred(cl.Fn, args, pre, st, nil, nil).(*Term)
		x.obligs = saveO
		if r.Op == "false" {
			// the precondition is definitely not met at this site: the contract
			// says nothing here, the body is verified in place (call rule 2)
			x.applied--
			x.appliedNames[c.Key]--
			x.inlined++
			x.notApplicable = append(x.notApplicable, c.Key+" (requires "+cl.Text+")")
			rv, rst := x.run(c.Fn, args, &State{h: st.h, facts: st.facts}, pc)
			st.h = rst.h
			return rv
		}
		t := b.Implies(pc, r)
		if t.Op != "true" {
			preObl = append(preObl, NamedTerm{fmt.Sprintf("%s/call-pre:%s#%d", fnKey(x.stack[len(x.stack)-1]), c.Key, i), t})
		}
	}
	x.obligs = append(x.obligs, preObl...)
	x.seq++
	tag := fmt.Sprintf("%s%d", sanitize(c.Fn.Name()), x.seq)
	mods := x.resolveMods(c.Modifies, args, st, nil)
	mods = append(mods, x.unmodelledMods(args, st)...)
	fresh := x.havoc(mods, st, tag)
	var results []Value
	var res Value
	rt := c.Fn.Signature.Results()
	for i := 0; i < rt.Len(); i++ {
		v := x.symV(rt.At(i).Type(), fmt.Sprintf("res_%s_%d", tag, i), st.h)
		if t, ok := v.(*Term); ok {
			fresh[t] = true
		}
		results = append(results, v)
	}
	switch len(results) {
	case 0:
	case 1:
		res = results[0]
	default:
		res = &TupleV{E: results}
	}
	var conj []*Term
	saveO := x.obligs
	for _, cl := range c.Ensures {
		if cl.Label == "diffalt" {
			continue
		}
		if !c.Discharged && len(c.DischargedBits) == 0 {
			break // frame-only use of the contract
		}
		if !c.Discharged && cl.Label != "diff" {
			continue
		}
		r := x.evalPred(cl.Fn, args, pre, st, nil, results).(*Term)
		if cl.Label == "diff" {
			// one hypothesis per component bit, built exactly like the goals of
			// contractVC so that identical components fold syntactically; only the
			// components discharged (for every case) in this run are assumed
			_, bits := x.ld.components()
			okBit := map[int]bool{}
			for n, k := range bits {
				if c.Discharged || c.DischargedBits[n] {
					okBit[k] = true
				}
			}
			for k := 0; k < r.S.W; k++ {
				if !okBit[k] {
					continue
				}
				e := b.Eq(b.Extract(k, k, r), b.Const(1, 0))
				if e.Op != "true" {
					conj = append(conj, e)
				}
			}
			continue
		}
		conj = splitAnd(r, conj)
	}
	x.obligs = saveO
	// equations  fresh == term  become bindings
	bind := map[*Term]*Term{}
	var rest []*Term
	for _, cj := range conj {
		memo := map[*Term]*Term{}
		cj = b.Subst(cj, bind, memo)
		bound := false
		if cj.Op == "=" {
			l, r := cj.Args[0], cj.Args[1]
			if fresh[r] && !fresh[l] {
				l, r = r, l
			}
			if fresh[l] && bind[l] == nil && !occurs(l, r, map[*Term]bool{}) {
				// re-substitute earlier bindings that mention l
				bind[l] = r
				bound = true
			}
		} else if fresh[cj] && bind[cj] == nil {
			bind[cj] = b.True()
			bound = true
		} else if cj.Op == "not" && fresh[cj.Args[0]] && bind[cj.Args[0]] == nil {
			bind[cj.Args[0]] = b.False()
			bound = true
		}
		if !bound {
			rest = append(rest, cj)
		}
	}
	if len(bind) > 0 {
		// close the bindings under themselves (later bindings may mention earlier fresh vars)
		for i := 0; i < 4; i++ {
			memo := map[*Term]*Term{}
			ch := false
			for k, v := range bind {
				nv := b.Subst(v, bind, memo)
				if nv != v {
					bind[k] = nv
					ch = true
				}
			}
			if !ch {
				break
			}
		}
		memo := map[*Term]*Term{}
		for _, m := range mods {
			st.h[m.obj] = x.substV(st.h[m.obj], bind, memo)
		}
		if res != nil {
			res = x.substV(res, bind, memo)
		}
		for i, r := range rest {
			rest[i] = b.Subst(r, bind, memo)
		}
	}
	for _, r := range rest {
		x.assume(b.Implies(pc, r))
	}
	return res
}

// ---------------------------------------------------------------- verification of a body

type VC struct {
	Name      string // obligation group name (function / arm)
	Layer     string
	Props     []string
	Query     *Query
	B         *B
	Exec      *Exec
	Info      map[string]string
	Replay    *ReplaySpec
	caseIdx   int
	aliasInst bool // an aliasing instance of the parameters: the requires may legitimately exclude it
}

// isAliasLabel: does the instance label name an aliased parameter (anything but "p=separate")?
func isAliasLabel(l string) bool {
	if l == "" {
		return false
	}
	for _, part := range strings.Split(l, ",") {
		if !strings.HasSuffix(part, "=separate") {
			return true
		}
	}
	return false
}

type paramInstance struct {
	label string
	args  []Value
}

// symbolicArgs builds the symbolic entry state of fn.  Pointer parameters
// whose target type also occurs inside another pointer parameter's object
// (p *uint8 next to cpu *CPU) are instantiated once per possible alias and
// once as a separate cell.
func (x *Exec) symbolicArgs(fn *ssa.Function, st *State) []paramInstance {
	var base []Value
	type alt struct {
		idx  int
		vals []Value
		lbls []string
	}
	var alts []alt
	var roots []*PtrV
	var rootT []types.Type
	for i, p := range fn.Params {
		name := p.Name()
		if name == "" {
			name = fmt.Sprintf("arg%d", i)
		}
		v := x.symV(p.Type(), name, st.h)
		if pv, ok := v.(*PtrV); ok {
			// pointer parameters are assumed non-nil unless a contract says otherwise
			pv.Nil = nil
			if _, isStruct := p.Type().Underlying().(*types.Pointer).Elem().Underlying().(*types.Struct); isStruct && len(roots) == 0 {
				roots = append(roots, pv)
				rootT = append(rootT, p.Type().Underlying().(*types.Pointer).Elem())
			}
		}
		base = append(base, v)
	}
	for i, p := range fn.Params {
		pt, ok := p.Type().Underlying().(*types.Pointer)
		if !ok || len(roots) == 0 || base[i] == Value(roots[0]) {
			continue
		}
		a := alt{idx: i, vals: []Value{base[i]}, lbls: []string{"separate"}}
		leavesTyped(st.h[roots[0].Obj], rootT[0], "", nil, func(name string, path []PE, t types.Type) {
			if types.Identical(t, pt.Elem()) {
				a.vals = append(a.vals, &PtrV{Obj: roots[0].Obj, Path: path})
				a.lbls = append(a.lbls, name)
			}
		})
		if len(a.vals) > 1 {
			alts = append(alts, a)
		}
	}
	out := []paramInstance{{"", base}}
	for _, a := range alts {
		var next []paramInstance
		for _, inst := range out {
			for k, v := range a.vals {
				na := append([]Value{}, inst.args...)
				na[a.idx] = v
				l := inst.label
				if l != "" {
					l += ","
				}
				next = append(next, paramInstance{l + fn.Params[a.idx].Name() + "=" + a.lbls[k], na})
			}
		}
		out = next
	}
	return out
}

// leavesTyped enumerates every sub-location (struct fields at all depths).
func leavesTyped(v Value, t types.Type, prefix string, path []PE, f func(name string, path []PE, t types.Type)) {
	if prefix != "" {
		f(prefix, path, t)
	}
	if st, ok := t.Underlying().(*types.Struct); ok {
		sv, ok := v.(*StructV)
		if !ok {
			return
		}
		for i := 0; i < st.NumFields(); i++ {
			n := st.Field(i).Name()
			if prefix != "" {
				n = prefix + "." + n
			}
			leavesTyped(sv.F[i], st.Field(i).Type(), n, append(append([]PE{}, path...), PE{Field: i}), f)
		}
	}
}

// frameGoals: every pre-existing location not covered by a modifies entry is unchanged.
func (x *Exec) frameGoals(pre Heap, post Heap, mods []modEntry, skip func(o *Object, name string) bool) []NamedTerm {
	var out []NamedTerm
	for o, ov := range pre {
		nv, ok := post[o]
		if !ok {
			continue
		}
		if ov == nv {
			continue
		}
		whole := false
		for _, m := range mods {
			if m.obj == o && (m.whole && len(m.path) == 0 || len(m.path) == 0) {
				whole = true
			}
		}
		if whole {
			continue
		}
		var walk func(a, c Value, name string, path []PE)
		walk = func(a, c Value, name string, path []PE) {
			if a == c {
				return
			}
			for _, m := range mods {
				if m.obj == o && pathPrefix(m.path, path) && len(m.path) <= len(path) {
					return
				}
			}
			if x.ld.unmodelled(o, path) {
				x.unmodelledWritten[name] = true
				return
			}
			if sa, ok := a.(*StructV); ok {
				sc := c.(*StructV)
				var st *types.Struct
				if o.T != nil {
					if tt := typeAt(o.T, path); tt != nil {
						st, _ = tt.Underlying().(*types.Struct)
					}
				}
				for i := range sa.F {
					fn := fmt.Sprintf("%d", i)
					if st != nil {
						fn = st.Field(i).Name()
					}
					walk(sa.F[i], sc.F[i], name+"."+fn, append(append([]PE{}, path...), PE{Field: i}))
				}
				return
			}
			if skip != nil && skip(o, name) {
				return
			}
			eq := x.valEq(a, c)
			if eq.Op != "true" {
				out = append(out, NamedTerm{"frame:" + name, eq})
			}
		}
		walk(ov, nv, o.name, nil)
	}
	return out
}

func typeAt(t types.Type, path []PE) types.Type {
	for _, e := range path {
		if e.Index != nil {
			switch u := t.Underlying().(type) {
			case *types.Array:
				t = u.Elem()
			default:
				return nil
			}
			continue
		}
		st, ok := t.Underlying().(*types.Struct)
		if !ok {
			return nil
		}
		t = st.Field(e.Field).Type()
	}
	return t
}

// verifyContract generates the VCs of one function against its own contract.
func (ld *Loaded) verifyContract(c *Contract, useContracts bool, loopMode ...int) (vcs []*VC, err error) {
	mode := 0 // 1: drop [aux] invariants, 2: ignore the loop contracts (unroll)
	if len(loopMode) > 0 {
		mode = loopMode[0]
	}
	defer func() {
		if r := recover(); r != nil {
			if u, ok := asUnsupported(r); ok {
				err = fmt.Errorf("UNSUPPORTED %s (while verifying %s)", u.Msg, c.Key)
				return
			}
			panic(r)
		}
	}()
	probe := NewExec(ld)
	probeSt := &State{h: Heap{}}
	probe.setupGhost(c.Fn.Pkg, probeSt)
	insts := probe.symbolicArgs(c.Fn, probeSt)
	for k := range insts {
		x := NewExec(ld)
		x.useContracts = useContracts
		x.dropAux, x.ignoreLoops = mode == 1, mode == 2
		st := &State{h: Heap{}}
		x.setupGhost(c.Fn.Pkg, st)
		x.initPackage(c.Fn.Pkg, st)
		inst := x.symbolicArgs(c.Fn, st)[k]
		pre := st.h.clone()
		for _, cl := range c.Requires {
			r := x.evalPred(cl.Fn, inst.args, pre, st, nil, nil).(*Term)
			x.assume(r)
		}
		x.pinBoolHyps(st, inst.args)
		pre = st.h.clone()
		x.obligs = nil
		mods := x.resolveMods(c.Modifies, inst.args, st, nil)
		rv, rst := x.run(c.Fn, inst.args, &State{h: st.h.clone()}, x.b.True())
		retCond := x.retCond
		var results []Value
		switch t := rv.(type) {
		case nil:
		case *TupleV:
			results = t.E
		default:
			results = []Value{rv}
		}
		q := &Query{Hyps: x.hyps}
		for i, cl := range c.Ensures {
			if cl.Label == "diffalt" {
				continue
			}
			name := fmt.Sprintf("ensures#%d", i)
			if cl.Label != "" {
				name = "ensures[" + cl.Label + "]"
			}
			r := x.evalPred(cl.Fn, inst.args, pre, rst, nil, results).(*Term)
			q.Goals = append(q.Goals, NamedTerm{name, x.b.Implies(retCond, r)})
		}
		for _, g := range x.frameGoals(pre, rst.h, mods, nil) {
			q.Goals = append(q.Goals, NamedTerm{g.Name, x.b.Implies(retCond, g.T)})
		}
		q.Goals = append(q.Goals, x.obligs...)
		for i := range q.Goals {
			q.Goals[i].T = x.skolemize(q.Goals[i].T, true)
		}
		q.Hyps = x.hyps
		name := c.Key
		if inst.label != "" {
			name += "[" + inst.label + "]"
		}
		x.addArgValues(q, c, inst.args, pre)
		rk := "func"
		if c.Fn.Pkg.Pkg.Name() == "main" {
			rk = "none" // commands talk to the OS: never executed by a replay
		}
		vcs = append(vcs, &VC{Name: name, Layer: c.Layer, Props: c.Props, Query: q, B: x.b, Exec: x, Replay: &ReplaySpec{Kind: rk, Contract: c}, aliasInst: isAliasLabel(inst.label)})
	}
	return vcs, nil
}

func (x *Exec) setupGhost(pkg *ssa.Package, st *State) {
	gt, ok := x.ld.ghostT[pkg.Pkg.Path()]
	if !ok {
		return
	}
	x.gobj = x.newObj("ghost", gt)
	st.h[x.gobj] = x.symV(gt, "G", st.h)
}

// unmodelledMods: the unmodelled fields of every struct reachable through a
// pointer argument are part of every callee's frame.
func (x *Exec) unmodelledMods(args []Value, st *State) []modEntry {
	var out []modEntry
	for _, a := range args {
		p, ok := a.(*PtrV)
		if !ok || p.Obj == nil || len(p.Path) != 0 || p.AltC != nil {
			continue
		}
		var walk func(v Value, path []PE)
		walk = func(v Value, path []PE) {
			sv, ok := v.(*StructV)
			if !ok {
				return
			}
			for i := range sv.F {
				np := append(append([]PE{}, path...), PE{Field: i})
				if x.ld.unmodelled(p.Obj, np) {
					switch sv.F[i].(type) {
					case *Term, *StructV:
						out = append(out, modEntry{obj: p.Obj, path: np})
					}
					continue
				}
				walk(sv.F[i], np)
			}
		}
		walk(st.h[p.Obj], nil)
	}
	return out
}

// skolemize replaces universal quantifiers in positive position of a goal by
// fresh constants (to prove forall k. P(k) is to prove P(w) for an arbitrary
// w): the query gets smaller for the solver, and a counterexample names the
// witness - the array cells at w become part of the model the replay rebuilds.
func (x *Exec) skolemize(t *Term, pos bool) *Term {
	b := x.b
	switch t.Op {
	case "forall":
		if !pos || t.hasBV {
			return t
		}
		m := map[*Term]*Term{}
		for _, v := range t.Bound {
			m[v] = b.Fresh("wit", v.S)
		}
		body := b.Subst(t.Args[0], m, map[*Term]*Term{})
		// the cells at the witness
		seen := map[*Term]bool{}
		var walk func(u *Term)
		walk = func(u *Term) {
			if seen[u] {
				return
			}
			seen[u] = true
			if u.Op == "select" {
				x.noteSelect(u.Args[0], u.Args[1])
			}
			for _, a := range u.Args {
				walk(a)
			}
		}
		walk(body)
		return x.skolemize(body, pos)
	case "and":
		return b.And(x.skolemize(t.Args[0], pos), x.skolemize(t.Args[1], pos))
	case "or":
		return b.Or(x.skolemize(t.Args[0], pos), x.skolemize(t.Args[1], pos))
	case "not":
		return b.Not(x.skolemize(t.Args[0], !pos))
	case "ite":
		if t.S.K == 'b' {
			return b.Ite(t.Args[0], x.skolemize(t.Args[1], pos), x.skolemize(t.Args[2], pos))
		}
	}
	return t
}
