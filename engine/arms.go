package main

// Path-split verification of (*CPU).executeOne against its contract: one
// obligation group per (decode table, opcode byte) pair.  The union of the
// 1786 pairs covers every memory content at PC (complete by construction).

import (
	"fmt"
	"go/constant"
	"go/types"
	"sort"
	"strings"

	"golang.org/x/tools/go/ssa"
)

type Encoding struct {
	Table string  // "", CB, ED, DD, FD, DDCB, FDCB
	Pre   []uint8 // prefix bytes
	CBX   bool    // displacement byte between prefix and opcode
	Op    uint8
}

func (e Encoding) String() string {
	var p []string
	for _, b := range e.Pre {
		p = append(p, fmt.Sprintf("%02X", b))
	}
	if e.CBX {
		p = append(p, "d")
	}
	p = append(p, fmt.Sprintf("%02X", e.Op))
	return strings.Join(p, " ")
}

func (e Encoding) FileName() string { return strings.ReplaceAll(e.String(), " ", "_") }

func allEncodings() []Encoding {
	type tbl struct {
		name string
		pre  []uint8
		cbx  bool
	}
	tables := []tbl{{"", nil, false}, {"CB", []uint8{0xcb}, false}, {"ED", []uint8{0xed}, false},
		{"DD", []uint8{0xdd}, false}, {"FD", []uint8{0xfd}, false}, {"DDCB", []uint8{0xdd, 0xcb}, true}, {"FDCB", []uint8{0xfd, 0xcb}, true}}
	var out []Encoding
	for _, tb := range tables {
		for b := 0; b < 256; b++ {
			if tb.name == "" && (b == 0xcb || b == 0xdd || b == 0xed || b == 0xfd) {
				continue
			}
			if (tb.name == "DD" || tb.name == "FD") && b == 0xcb {
				continue
			}
			out = append(out, Encoding{tb.name, tb.pre, tb.cbx, uint8(b)})
		}
	}
	return out
}

// components: name -> bit, read from the spec's VsComp* constants.
func (ld *Loaded) components() (names []string, bit map[string]int) {
	bit = map[string]int{}
	sc := ld.pkgs[modPath].Pkg.Scope()
	for _, n := range sc.Names() {
		if !strings.HasPrefix(n, "VsComp") {
			continue
		}
		c, ok := sc.Lookup(n).(*types.Const)
		if !ok {
			continue
		}
		v, _ := constant.Int64Val(c.Val())
		bit[strings.TrimPrefix(n, "VsComp")] = int(v)
	}
	for n := range bit {
		names = append(names, n)
	}
	sort.Slice(names, func(i, j int) bool { return bit[names[i]] < bit[names[j]] })
	return
}

type armOpts struct {
	useContracts bool
	comps        func(e Encoding) map[string]bool // nil: all components
	frame        bool
	safety       bool
	prop         string
}

func (x *Exec) cpuPath(names ...string) []PE {
	t := x.ld.pkgs[modPath].Type("CPU").Type()
	var p []PE
	for _, n := range names {
		found := false
		for !found {
			st := t.Underlying().(*types.Struct)
			for i := 0; i < st.NumFields(); i++ {
				if st.Field(i).Name() == n {
					p = append(p, PE{Field: i})
					t = st.Field(i).Type()
					found = true
					break
				}
			}
			if !found {
				// search embedded structs
				emb := false
				for i := 0; i < st.NumFields(); i++ {
					if st.Field(i).Embedded() {
						if _, ok := st.Field(i).Type().Underlying().(*types.Struct); ok && hasFieldDeep(st.Field(i).Type(), n) {
							p = append(p, PE{Field: i})
							t = st.Field(i).Type()
							emb = true
							break
						}
					}
				}
				if !emb {
					panic("no field " + n)
				}
			}
		}
	}
	return p
}

func hasFieldDeep(t types.Type, n string) bool {
	st, ok := t.Underlying().(*types.Struct)
	if !ok {
		return false
	}
	for i := 0; i < st.NumFields(); i++ {
		if st.Field(i).Name() == n {
			return true
		}
		if st.Field(i).Embedded() && hasFieldDeep(st.Field(i).Type(), n) {
			return true
		}
	}
	return false
}

// specialise stores the encoding's constant bytes at PC.. into the ghost memory.
func (x *Exec) specialise(st *State, cpu *PtrV, e Encoding) {
	b := x.b
	pc := x.getPath(st.h[cpu.Obj], x.cpuPath("PC")).(*Term)
	M := x.ghostGet(st, "Mem")
	k := uint64(0)
	for _, p := range e.Pre {
		M = b.Store(M, b.Bin("bvadd", pc, b.Const(16, k)), b.Const(8, uint64(p)))
		k++
	}
	if e.CBX {
		k++
	}
	M = b.Store(M, b.Bin("bvadd", pc, b.Const(16, k)), b.Const(8, uint64(e.Op)))
	x.ghostSet(st, "Mem", M)
}

// armVC builds the obligation group of one encoding.
func (ld *Loaded) armVC(e Encoding, o armOpts) (vc *VC, err error) {
	defer func() {
		if r := recover(); r != nil {
			if u, ok := r.(Unsupported); ok {
				err = fmt.Errorf("UNSUPPORTED %s (arm %s)", u.Msg, e)
				return
			}
			panic(r)
		}
	}()
	c := ld.contracts["z80.(*CPU).executeOne"]
	if c == nil {
		return nil, fmt.Errorf("no contract for z80.(*CPU).executeOne")
	}
	x := NewExec(ld)
	x.useContracts = o.useContracts
	st := &State{h: Heap{}}
	x.setupGhost(c.Fn.Pkg, st)
	x.initPackage(c.Fn.Pkg, st)
	inst := x.symbolicArgs(c.Fn, st)[0]
	cpu := inst.args[0].(*PtrV)
	x.specialise(st, cpu, e)
	pre := st.h.clone()
	for _, cl := range c.Requires {
		x.assume(x.evalPred(cl.Fn, inst.args, pre, st, nil, nil).(*Term))
	}
	x.obligs = nil
	mods := x.resolveMods(c.Modifies, inst.args, st, nil)
	_, rst := x.run(c.Fn, inst.args, &State{h: st.h.clone()}, x.b.True())
	q := &Query{}
	var want map[string]bool
	if o.comps != nil {
		want = o.comps(e)
	}
	names, bit := ld.components()
	for i, cl := range c.Ensures {
		r := x.evalPred(cl.Fn, inst.args, pre, rst, nil, nil).(*Term)
		if cl.Label == "diff" {
			{
				d := r
				for _, n := range names {
					if want != nil && !want[n] {
						continue
					}
					k := bit[n]
					g := x.b.Eq(x.b.Extract(k, k, d), x.b.Const(1, 0))
					if g.Op != "true" {
						q.Goals = append(q.Goals, NamedTerm{n, g})
					}
				}
				q.Values = append(q.Values, NamedTerm{"diffmask", d})
				continue
			}
		}
		name := fmt.Sprintf("ensures#%d", i)
		if cl.Label != "" {
			name = cl.Label
		}
		q.Goals = append(q.Goals, NamedTerm{name, r})
	}
	if o.frame {
		q.Goals = append(q.Goals, x.frameGoals(pre, rst.h, mods, nil)...)
	}
	if o.safety {
		q.Goals = append(q.Goals, x.obligs...)
	}
	q.Hyps = x.hyps
	// values needed to replay a counterexample
	x.addReplayValues(q, pre, cpu)
	vc = &VC{Name: "z80.(*CPU).executeOne/arm[" + e.String() + "]", Layer: "P", Query: q, B: x.b, Exec: x,
		Info: map[string]string{"encoding": e.String(), "file": "arm_" + e.FileName()},
		Replay: &ReplaySpec{Kind: "step", Enc: &e}}
	return vc, nil
}

// addReplayValues asks the solver for the cells of the unknown arrays that the
// VC read (memory, port answers) next to the scalar unknowns.
func (x *Exec) addReplayValues(q *Query, pre Heap, cpu *PtrV) {
	b := x.b
	for name, idxs := range x.reads {
		var arr *Term
		gv := pre[x.gobj].(*StructV)
		for _, f := range gv.F {
			t, ok := f.(*Term)
			if !ok {
				continue
			}
			r := t
			for r.Op == "store" {
				r = r.Args[0]
			}
			if r.Op == "var" && r.Name == name {
				arr = r
			}
		}
		if arr == nil {
			continue
		}
		for k, ix := range idxs {
			q.Values = append(q.Values, NamedTerm{fmt.Sprintf("cell:%s:%d:idx", name, k), ix})
			q.Values = append(q.Values, NamedTerm{fmt.Sprintf("cell:%s:%d:val", name, k), b.Select(arr, ix)})
		}
	}
}

var _ = ssa.BuilderMode(0)
