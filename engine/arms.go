package main

// Path-split verification of (*CPU).executeOne against its contract: one
// obligation group per (decode table, opcode byte) pair.  The union of the
// 1786 pairs covers every memory content at PC (complete by construction).

import (
	"fmt"
	"go/constant"
	"go/types"
	"sort"
	"strings"

	"golang.org/x/tools/go/ssa"
)

type Encoding struct {
	Table string  // "", CB, ED, DD, FD, DDCB, FDCB
	Pre   []uint8 // prefix bytes
	CBX   bool    // displacement byte between prefix and opcode
	Op    uint8
}

func (e Encoding) String() string {
	var p []string
	for _, b := range e.Pre {
		p = append(p, fmt.Sprintf("%02X", b))
	}
	if e.CBX {
		p = append(p, "d")
	}
	p = append(p, fmt.Sprintf("%02X", e.Op))
	return strings.Join(p, " ")
}

func (e Encoding) FileName() string { return strings.ReplaceAll(e.String(), " ", "_") }

func allEncodings() []Encoding {
	type tbl struct {
		name string
		pre  []uint8
		cbx  bool
	}
	tables := []tbl{{"", nil, false}, {"CB", []uint8{0xcb}, false}, {"ED", []uint8{0xed}, false},
		{"DD", []uint8{0xdd}, false}, {"FD", []uint8{0xfd}, false}, {"DDCB", []uint8{0xdd, 0xcb}, true}, {"FDCB", []uint8{0xfd, 0xcb}, true}}
	var out []Encoding
	for _, tb := range tables {
		for b := 0; b < 256; b++ {
			if tb.name == "" && (b == 0xcb || b == 0xdd || b == 0xed || b == 0xfd) {
				continue
			}
			if (tb.name == "DD" || tb.name == "FD") && b == 0xcb {
				continue
			}
			out = append(out, Encoding{tb.name, tb.pre, tb.cbx, uint8(b)})
		}
	}
	return out
}

// components: name -> bit, read from the spec's VsComp* constants.
func (ld *Loaded) components() (names []string, bit map[string]int) {
	bit = map[string]int{}
	sc := ld.pkgs[modPath].Pkg.Scope()
	for _, n := range sc.Names() {
		if !strings.HasPrefix(n, "VsComp") {
			continue
		}
		c, ok := sc.Lookup(n).(*types.Const)
		if !ok {
			continue
		}
		v, _ := constant.Int64Val(c.Val())
		bit[strings.TrimPrefix(n, "VsComp")] = int(v)
	}
	for n := range bit {
		names = append(names, n)
	}
	sort.Slice(names, func(i, j int) bool { return bit[names[i]] < bit[names[j]] })
	return
}

type armOpts struct {
	useContracts bool
	comps        func(e Encoding) map[string]bool // nil: all components
	frame        bool
	safety       bool
	prop         string
}

func (x *Exec) cpuPath(names ...string) []PE {
	t := x.ld.pkgs[modPath].Type("CPU").Type()
	var p []PE
	for _, n := range names {
		found := false
		for !found {
			st := t.Underlying().(*types.Struct)
			for i := 0; i < st.NumFields(); i++ {
				if st.Field(i).Name() == n {
					p = append(p, PE{Field: i})
					t = st.Field(i).Type()
					found = true
					break
				}
			}
			if !found {
				// search embedded structs
				emb := false
				for i := 0; i < st.NumFields(); i++ {
					if st.Field(i).Embedded() {
						if _, ok := st.Field(i).Type().Underlying().(*types.Struct); ok && hasFieldDeep(st.Field(i).Type(), n) {
							p = append(p, PE{Field: i})
							t = st.Field(i).Type()
							emb = true
							break
						}
					}
				}
				if !emb {
					panic("no field " + n)
				}
			}
		}
	}
	return p
}

func hasFieldDeep(t types.Type, n string) bool {
	st, ok := t.Underlying().(*types.Struct)
	if !ok {
		return false
	}
	for i := 0; i < st.NumFields(); i++ {
		if st.Field(i).Name() == n {
			return true
		}
		if st.Field(i).Embedded() && hasFieldDeep(st.Field(i).Type(), n) {
			return true
		}
	}
	return false
}

// specialise stores the encoding's constant bytes at PC.. into the ghost memory.
func (x *Exec) specialise(st *State, cpu *PtrV, e Encoding) {
	b := x.b
	pc := x.getPath(st.h[cpu.Obj], x.cpuPath("PC")).(*Term)
	M := x.ghostGet(st, "Mem")
	k := uint64(0)
	for _, p := range e.Pre {
		M = b.Store(M, b.Bin("bvadd", pc, b.Const(16, k)), b.Const(8, uint64(p)))
		k++
	}
	if e.CBX {
		k++
	}
	M = b.Store(M, b.Bin("bvadd", pc, b.Const(16, k)), b.Const(8, uint64(e.Op)))
	x.ghostSet(st, "Mem", M)
}

// vcOpts: how one obligation group of a contract is generated.
type vcOpts struct {
	name         string
	useContracts bool
	specialise   func(x *Exec, st *State, args []Value) // case split: pins parts of the symbolic pre-state
	comps        map[string]bool                        // nil: all components of a [diff] clause
	frame        bool
	safety       bool
	onlySafety   bool // drop the functional goals (cases the statement leaves open)
	altDiff      bool // use the [diffalt] clause instead of [diff] (known-finding obligations)
	replay       *ReplaySpec
	info         map[string]string
}

// contractVC generates the obligation group "body of c.Fn satisfies c" for one
// case of a case split.  The union of the cases of a split must cover all
// pre-states; that is argued where the split is defined.
func (ld *Loaded) contractVC(c *Contract, o vcOpts) (vc *VC, err error) {
	defer func() {
		if r := recover(); r != nil {
			if u, ok := asUnsupported(r); ok {
				err = fmt.Errorf("UNSUPPORTED %s (%s)", u.Msg, o.name)
				return
			}
			panic(r)
		}
	}()
	x := NewExec(ld)
	x.useContracts = o.useContracts
	st := &State{h: Heap{}}
	x.setupGhost(c.Fn.Pkg, st)
	x.initPackage(c.Fn.Pkg, st)
	inst := x.symbolicArgs(c.Fn, st)[0]
	if o.specialise != nil {
		o.specialise(x, st, inst.args)
	}
	pre := st.h.clone()
	for _, cl := range c.Requires {
		x.assume(x.evalPred(cl.Fn, inst.args, pre, st, nil, nil).(*Term))
	}
	x.pinBoolHyps(st, inst.args)
	pre = st.h.clone()
	x.obligs = nil
	mods := x.resolveMods(c.Modifies, inst.args, st, nil)
	rv, rst := x.run(c.Fn, inst.args, &State{h: st.h.clone(), facts: x.seedFacts}, x.b.True())
	retCond := x.retCond
	var results []Value
	switch t := rv.(type) {
	case nil:
	case *TupleV:
		results = t.E
	default:
		results = []Value{rv}
	}
	q := &Query{}
	// seeded facts must follow from the hypotheses of the case
	for t, v := range x.seedFacts {
		q.Goals = append(q.Goals, NamedTerm{"case-fact", x.b.Eq(t, v)})
	}
	names, bit := ld.components()
	for i, cl := range c.Ensures {
		if o.onlySafety {
			break
		}
		if cl.Label == "diffalt" && !o.altDiff || cl.Label == "diff" && o.altDiff {
			continue
		}
		r := x.evalPred(cl.Fn, inst.args, pre, rst, nil, results).(*Term)
		if cl.Label == "diff" || cl.Label == "diffalt" {
			d := r
			for _, n := range names {
				if o.comps != nil && !o.comps[n] {
					continue
				}
				k := bit[n]
				if k >= d.S.W {
					continue
				}
				g := x.b.Eq(x.b.Extract(k, k, d), x.b.Const(1, 0))
				if g.Op != "true" {
					q.Goals = append(q.Goals, NamedTerm{n, g})
				}
			}
			q.Values = append(q.Values, NamedTerm{"diffmask", d})
			continue
		}
		name := fmt.Sprintf("ensures#%d", i)
		if cl.Label != "" {
			name = cl.Label
		}
		q.Goals = append(q.Goals, NamedTerm{name, x.b.Implies(retCond, r)})
	}
	if o.frame {
		for _, g := range x.frameGoals(pre, rst.h, mods, nil) {
			q.Goals = append(q.Goals, NamedTerm{g.Name, x.b.Implies(retCond, g.T)})
		}
	}
	if o.safety {
		q.Goals = append(q.Goals, x.obligs...)
	}
	q.Hyps = x.hyps
	// goals that are literally among the hypotheses are discharged by the simplifier
	hyp := map[*Term]bool{}
	for _, h := range x.hyps {
		for _, cj := range splitAnd(h, nil) {
			hyp[cj] = true
		}
	}
	var goals []NamedTerm
	for _, g := range q.Goals {
		if !hyp[g.T] {
			goals = append(goals, g)
		}
	}
	q.Goals = goals
	if cpu, ok := inst.args[0].(*PtrV); ok && x.gobj != nil {
		x.addReplayValues(q, pre, cpu)
	}
	vc = &VC{Name: o.name, Layer: c.Layer, Query: q, B: x.b, Exec: x, Info: o.info, Replay: o.replay}
	return vc, nil
}

// pinBoolHyps: a hypothesis that is a bare boolean unknown (or its negation)
// is substituted into the symbolic pre-state, so that the code's own tests of
// it fold (cpu.Memory != nil, cpu.Interrupt != nil, …).
func (x *Exec) pinBoolHyps(st *State, args ...[]Value) {
	bind := map[*Term]*Term{}
	var rest []*Term
	for _, h := range x.hyps {
		for _, cj := range splitAnd(h, nil) {
			switch {
			case cj.Op == "var":
				bind[cj] = x.b.True()
			case cj.Op == "not" && cj.Args[0].Op == "var":
				bind[cj.Args[0]] = x.b.False()
			case cj.Op == "=" && cj.Args[0].Op == "var" && isC(cj.Args[1]):
				bind[cj.Args[0]] = cj.Args[1]
			default:
				rest = append(rest, cj)
			}
		}
	}
	if len(bind) == 0 {
		return
	}
	memo := map[*Term]*Term{}
	for o, v := range st.h {
		st.h[o] = x.substV(v, bind, memo)
	}
	for _, as := range args {
		for i := range as {
			as[i] = x.substV(as[i], bind, memo) // by-value arguments (maps, slices, interfaces) carry terms too
		}
	}
	x.hyps = nil
	for _, r := range rest {
		x.assume(x.b.Subst(r, bind, memo))
	}
}

// armVC builds the obligation group of one encoding.
func (ld *Loaded) armVC(e Encoding, o armOpts) (*VC, error) {
	c := ld.contracts["z80.(*CPU).executeOne"]
	if c == nil {
		return nil, fmt.Errorf("no contract for z80.(*CPU).executeOne")
	}
	var comps map[string]bool
	if o.comps != nil {
		comps = o.comps(e)
	}
	enc := e
	return ld.contractVC(c, vcOpts{
		name: "z80.(*CPU).executeOne/arm[" + e.String() + "]", useContracts: o.useContracts,
		specialise: func(x *Exec, st *State, args []Value) { x.specialise(st, args[0].(*PtrV), enc) },
		comps:      comps, frame: o.frame, safety: o.safety,
		replay: &ReplaySpec{Kind: "step", Enc: &enc},
		info:   map[string]string{"encoding": e.String()},
	})
}

// addReplayValues asks the solver for everything needed to rebuild the
// pre-state concretely: every scalar leaf of the CPU object, the nil-ness of
// its reference fields, the pending request, and the cells of the unknown
// arrays (memory, port answers) that the VC actually read.
func (x *Exec) addReplayValues(q *Query, pre Heap, cpu *PtrV) {
	b := x.b
	cv, ok := pre[cpu.Obj].(*StructV)
	if !ok {
		return
	}
	var walk func(v Value, t types.Type, gp string)
	walk = func(v Value, t types.Type, gp string) {
		switch u := v.(type) {
		case *StructV:
			st := t.Underlying().(*types.Struct)
			for i := range u.F {
				walk(u.F[i], st.Field(i).Type(), gp+"."+st.Field(i).Name())
			}
		case *Term:
			if u.S.K != 'a' {
				q.Values = append(q.Values, NamedTerm{"pre:" + gp, u})
			}
		case *IfaceV:
			q.Values = append(q.Values, NamedTerm{"nil:" + gp, x.ifaceNil(u)})
		case *PtrV:
			q.Values = append(q.Values, NamedTerm{"nil:" + gp, x.ptrNil(u)})
			if u.Obj != nil && strings.HasSuffix(gp, ".Interrupt") {
				if iv, ok := pre[u.Obj].(*StructV); ok && len(iv.F) == 2 {
					if t, ok := iv.F[0].(*Term); ok {
						q.Values = append(q.Values, NamedTerm{"intr:Type", t})
					}
					if d, ok := iv.F[1].(*SliceV); ok && d.Obj != nil {
						q.Values = append(q.Values, NamedTerm{"intr:Len", d.Len})
						q.Values = append(q.Values, NamedTerm{"intr:Cap", d.Cap})
						q.Prefer = append(q.Prefer, b.Not(b.Cmp("bvult", b.Const(64, 8), d.Len)))
						arr := x.getPath(pre[d.Obj], d.Path).(*Term)
						for k := 0; k < 8; k++ {
							q.Values = append(q.Values, NamedTerm{fmt.Sprintf("intr:Data:%d", k), b.Select(arr, b.Bin("bvadd", d.Off, b.Const(64, uint64(k))))})
						}
					}
				}
			}
		}
	}
	walk(cv, x.ld.pkgs[modPath].Type("CPU").Type(), "cpu")
	gv, ok := pre[x.gobj].(*StructV)
	if !ok {
		return
	}
	for fname, fi := range x.ld.ghostField {
		arr, ok := gv.F[fi].(*Term)
		if !ok || arr.S.K != 'a' {
			continue
		}
		r := arr
		for r.Op == "store" {
			r = r.Args[0]
		}
		if r.Op != "var" {
			continue
		}
		for k, ix := range x.reads[r.Name] {
			q.Values = append(q.Values, NamedTerm{fmt.Sprintf("cell:%s:%d:idx", fname, k), ix})
			q.Values = append(q.Values, NamedTerm{fmt.Sprintf("cell:%s:%d:val", fname, k), b.Select(arr, ix)})
		}
	}
}

var _ = ssa.BuilderMode(0)
