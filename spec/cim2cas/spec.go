package main

// Ghost state and container specification for cim2cas (C19).

// VGhost: the input image as os.ReadFile returned it, the output file as the
// list of chunks written through the buffered writer (in order; content
// snapshotted at the time of the write), and whether any OS / I/O call failed.
type VGhost struct {
	In       []uint8
	NC       int
	C0, C1   []uint8
	C2, C3   []uint8
	C4, C5   []uint8
	C6, C7   []uint8
	C8, C9   []uint8
	OSFailed bool
	Trunc    bool // the output file was created empty (os.Create, or os.OpenFile with O_TRUNC)
}

func vsForallIdx(f func(i int) bool) bool {
	for i := 0; i < 1<<17; i++ {
		if !f(i) {
			return false
		}
	}
	return true
}

func vsIsByte(c []uint8, v uint8) bool { return len(c) == 1 && c[0] == v }
func vsIsU16(c []uint8, v uint16) bool {
	return len(c) == 2 && c[0] == uint8(v) && c[1] == uint8(v>>8)
}
func vsSame(c, in []uint8) bool {
	return len(c) == len(in) && vsForallIdx(func(i int) bool { return i < 0 || i >= len(in) || c[i] == in[i] })
}

// vsFits: the end address of the image fits in 16 bits.
func vsFits(in []uint8, off uint) bool {
	return len(in) >= 1 && off <= 0xffff && off+uint(len(in))-1 <= 0xffff
}

// vsName6: the name truncated or space-padded to six characters.
func vsName6(c []uint8, name string) bool {
	return len(c) == 6 &&
		c[0] == vsNameByte(name, 0) && c[1] == vsNameByte(name, 1) && c[2] == vsNameByte(name, 2) &&
		c[3] == vsNameByte(name, 3) && c[4] == vsNameByte(name, 4) && c[5] == vsNameByte(name, 5)
}
func vsNameByte(name string, i int) uint8 {
	if i < len(name) {
		return name[i]
	}
	return 0x20
}
func vsIsSync(c []uint8) bool {
	return len(c) == 8 && c[0] == 0x1f && c[1] == 0xa6 && c[2] == 0xde && c[3] == 0xba && c[4] == 0xcc && c[5] == 0x13 && c[6] == 0x7d && c[7] == 0x74
}
func vsIsTypeBin(c []uint8) bool {
	return len(c) == 10 && c[0] == 0xd0 && c[1] == 0xd0 && c[2] == 0xd0 && c[3] == 0xd0 && c[4] == 0xd0 && c[5] == 0xd0 && c[6] == 0xd0 && c[7] == 0xd0 && c[8] == 0xd0 && c[9] == 0xd0
}

// vsCasContainer: sync header, ten 0xD0, six-character name (the -nam value,
// or the input file name when that is empty), sync header, start, end, exec, image.
func vsCasContainer(g *VGhost, off uint16, nam, cim string) bool {
	name := nam
	if name == "" {
		name = cim
	}
	return g.Trunc && vsStreamLen(g) == 38+len(g.In) && vsSyncAt(g, 0) && vsTypeBinAt(g, 8) && vsName6At(g, 18, name) && vsSyncAt(g, 24) &&
		vsU16At(g, 32, off) && vsU16At(g, 34, off+uint16(len(g.In))-1) && vsU16At(g, 36, off) && vsBodyAt(g, 38)
}

func vsSyncAt(g *VGhost, p int) bool {
	return vsStreamAt(g, p) == 0x1f && vsStreamAt(g, p+1) == 0xa6 && vsStreamAt(g, p+2) == 0xde && vsStreamAt(g, p+3) == 0xba &&
		vsStreamAt(g, p+4) == 0xcc && vsStreamAt(g, p+5) == 0x13 && vsStreamAt(g, p+6) == 0x7d && vsStreamAt(g, p+7) == 0x74
}

func vsTypeBinAt(g *VGhost, p int) bool {
	return vsStreamAt(g, p) == 0xd0 && vsStreamAt(g, p+1) == 0xd0 && vsStreamAt(g, p+2) == 0xd0 && vsStreamAt(g, p+3) == 0xd0 && vsStreamAt(g, p+4) == 0xd0 &&
		vsStreamAt(g, p+5) == 0xd0 && vsStreamAt(g, p+6) == 0xd0 && vsStreamAt(g, p+7) == 0xd0 && vsStreamAt(g, p+8) == 0xd0 && vsStreamAt(g, p+9) == 0xd0
}

func vsName6At(g *VGhost, p int, name string) bool {
	return vsStreamAt(g, p) == vsNameByte(name, 0) && vsStreamAt(g, p+1) == vsNameByte(name, 1) && vsStreamAt(g, p+2) == vsNameByte(name, 2) &&
		vsStreamAt(g, p+3) == vsNameByte(name, 3) && vsStreamAt(g, p+4) == vsNameByte(name, 4) && vsStreamAt(g, p+5) == vsNameByte(name, 5)
}

// The output file is the concatenation of the chunks, whatever their number
// and sizes (how the program batches its writes is not part of the format).
func vsStreamLen(g *VGhost) int {
	n := 0
	if g.NC > 0 {
		n += len(g.C0)
	}
	if g.NC > 1 {
		n += len(g.C1)
	}
	if g.NC > 2 {
		n += len(g.C2)
	}
	if g.NC > 3 {
		n += len(g.C3)
	}
	if g.NC > 4 {
		n += len(g.C4)
	}
	if g.NC > 5 {
		n += len(g.C5)
	}
	if g.NC > 6 {
		n += len(g.C6)
	}
	if g.NC > 7 {
		n += len(g.C7)
	}
	if g.NC > 8 {
		n += len(g.C8)
	}
	if g.NC > 9 {
		n += len(g.C9)
	}
	return n
}

// vsStreamAt: byte i of the output file (0 outside).
func vsStreamAt(g *VGhost, i int) uint8 {
	if i < 0 {
		return 0
	}
	if g.NC > 0 {
		if i < len(g.C0) {
			return g.C0[i]
		}
		i -= len(g.C0)
	}
	if g.NC > 1 {
		if i < len(g.C1) {
			return g.C1[i]
		}
		i -= len(g.C1)
	}
	if g.NC > 2 {
		if i < len(g.C2) {
			return g.C2[i]
		}
		i -= len(g.C2)
	}
	if g.NC > 3 {
		if i < len(g.C3) {
			return g.C3[i]
		}
		i -= len(g.C3)
	}
	if g.NC > 4 {
		if i < len(g.C4) {
			return g.C4[i]
		}
		i -= len(g.C4)
	}
	if g.NC > 5 {
		if i < len(g.C5) {
			return g.C5[i]
		}
		i -= len(g.C5)
	}
	if g.NC > 6 {
		if i < len(g.C6) {
			return g.C6[i]
		}
		i -= len(g.C6)
	}
	if g.NC > 7 {
		if i < len(g.C7) {
			return g.C7[i]
		}
		i -= len(g.C7)
	}
	if g.NC > 8 {
		if i < len(g.C8) {
			return g.C8[i]
		}
		i -= len(g.C8)
	}
	if g.NC > 9 {
		if i < len(g.C9) {
			return g.C9[i]
		}
	}
	return 0
}

func vsU16At(g *VGhost, i int, v uint16) bool {
	return vsStreamAt(g, i) == uint8(v) && vsStreamAt(g, i+1) == uint8(v>>8)
}

// vsBodyAt: the image follows the hdr header bytes, unmodified.
func vsBodyAt(g *VGhost, hdr int) bool {
	return vsForallIdx(func(i int) bool { return i < 0 || i >= len(g.In) || vsStreamAt(g, hdr+i) == g.In[i] })
}
