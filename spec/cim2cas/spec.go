package main

// Ghost state and container specification for cim2cas (C19).

// VGhost: the input image as os.ReadFile returned it, the output file as the
// list of chunks written through the buffered writer (in order; content
// snapshotted at the time of the write), and whether any OS / I/O call failed.
type VGhost struct {
	In       []uint8
	NC       int
	C0, C1   []uint8
	C2, C3   []uint8
	C4, C5   []uint8
	C6, C7   []uint8
	C8, C9   []uint8
	OSFailed bool
	Trunc    bool // the output file was created empty (os.Create, or os.OpenFile with O_TRUNC)
}

func vsForallIdx(f func(i int) bool) bool {
	for i := 0; i < 1<<17; i++ {
		if !f(i) {
			return false
		}
	}
	return true
}

func vsIsByte(c []uint8, v uint8) bool { return len(c) == 1 && c[0] == v }
func vsIsU16(c []uint8, v uint16) bool {
	return len(c) == 2 && c[0] == uint8(v) && c[1] == uint8(v>>8)
}
func vsSame(c, in []uint8) bool {
	return len(c) == len(in) && vsForallIdx(func(i int) bool { return i < 0 || i >= len(in) || c[i] == in[i] })
}

// vsFits: the end address of the image fits in 16 bits.
func vsFits(in []uint8, off uint) bool {
	return len(in) >= 1 && off <= 0xffff && off+uint(len(in))-1 <= 0xffff
}

// vsName6: the name truncated or space-padded to six characters.
func vsName6(c []uint8, name string) bool {
	return len(c) == 6 &&
		c[0] == vsNameByte(name, 0) && c[1] == vsNameByte(name, 1) && c[2] == vsNameByte(name, 2) &&
		c[3] == vsNameByte(name, 3) && c[4] == vsNameByte(name, 4) && c[5] == vsNameByte(name, 5)
}
func vsNameByte(name string, i int) uint8 {
	if i < len(name) {
		return name[i]
	}
	return 0x20
}
func vsIsSync(c []uint8) bool {
	return len(c) == 8 && c[0] == 0x1f && c[1] == 0xa6 && c[2] == 0xde && c[3] == 0xba && c[4] == 0xcc && c[5] == 0x13 && c[6] == 0x7d && c[7] == 0x74
}
func vsIsTypeBin(c []uint8) bool {
	return len(c) == 10 && c[0] == 0xd0 && c[1] == 0xd0 && c[2] == 0xd0 && c[3] == 0xd0 && c[4] == 0xd0 && c[5] == 0xd0 && c[6] == 0xd0 && c[7] == 0xd0 && c[8] == 0xd0 && c[9] == 0xd0
}

// vsCasContainer: sync header, ten 0xD0, six-character name (the -nam value,
// or the input file name when that is empty), sync header, start, end, exec, image.
func vsCasContainer(g *VGhost, off uint16, nam, cim string) bool {
	name := nam
	if name == "" {
		name = cim
	}
	return g.Trunc && g.NC == 8 && vsIsSync(g.C0) && vsIsTypeBin(g.C1) && vsName6(g.C2, name) && vsIsSync(g.C3) &&
		vsIsU16(g.C4, off) && vsIsU16(g.C5, off+uint16(len(g.In))-1) && vsIsU16(g.C6, off) && vsSame(g.C7, g.In)
}
