package z80

// C06/C07: the known mode-0 deviations, pinned.  The obligations
// Step/IM0[E] are proved against the as-implemented semantics vsImplIM0.  This
// lemma proves, spec against spec, that vsImplIM0 differs from the statement's
// semantics vsStmtIM0 in exactly one way when the overlay range does not wrap
// (¬D5) and no data access of the supplied instruction falls into it (¬D4):
// the supplied instruction runs as if PC had already been advanced by
// len(Data) (D3) - so RST/CALL push PC+len(Data), relative jumps are measured
// from there, and a non-jump instruction resumes len(Data) bytes too far.
// Any further drift of the code fails Step/IM0[E]; any drift of this
// description fails the lemma.

const vsLemma_C06_IM0Deviation_N = 7 * 256 * 4
const vsLemma_C06_IM0Deviation_QuickN = 256 * 4 // quick tier: the unprefixed table

// vsLemma_C06_NoWrapMono: if [pc, pc+n-1] does not wrap, every pc+j with j < n lies inside it.
func vsLemma_C06_NoWrapMono(pc uint16, n, j uint8) bool {
	if n < 1 || n > 4 || j >= n || pc+uint16(n-1) < pc {
		return true
	}
	return pc+uint16(j) >= pc && pc+uint16(j) <= pc+uint16(n-1)
}

func vsLemma_C06_IM0Deviation(kcase int, s VState, d []uint8) bool {
	n := kcase&3 + 1 // length of the supplied instruction
	tbl, op := kcase>>10, uint8(kcase>>2)
	var pre0, pre1 uint8
	npre, cbx := 0, false
	switch tbl {
	case 0:
		if op == 0xcb || op == 0xdd || op == 0xed || op == 0xfd {
			return true
		}
		if op == 0x76 {
			return true // HALT parks PC on the opcode: excluded
		}
	case 1:
		pre0, npre = 0xcb, 1
	case 2:
		pre0, npre = 0xed, 1
		if op >= 0xb0 && op <= 0xbb && op&7 <= 3 {
			return true // repeating block instructions rewind PC: excluded
		}
	case 3:
		pre0, npre = 0xdd, 1
		if op == 0xcb {
			return true
		}
	case 4:
		pre0, npre = 0xfd, 1
		if op == 0xcb {
			return true
		}
	case 5:
		pre0, pre1, npre, cbx = 0xdd, 0xcb, 2, true
	default:
		pre0, pre1, npre, cbx = 0xfd, 0xcb, 2, true
	}
	if !vsPlain(&s) || len(d) != n {
		return true
	}
	k := npre
	if cbx {
		k++
	}
	if len(d) <= k || d[k] != op {
		return true
	}
	if npre >= 1 && d[0] != pre0 {
		return true
	}
	if npre >= 2 && d[1] != pre1 {
		return true
	}
	if s.PC+uint16(n-1) < s.PC {
		return true // D5: the range wraps, the overlay is inactive
	}
	// consequences of "no wrap" (vsLemma_C06_NoWrapMono), spelled out so that
	// the overlay's range tests fold during generation
	if s.PC+1 < s.PC && n > 1 || s.PC+2 < s.PC && n > 2 || s.PC+3 < s.PC && n > 3 {
		return true
	}
	if s.PC+1 > s.PC+uint16(n-1) && n > 1 || s.PC+2 > s.PC+uint16(n-1) && n > 2 {
		return true
	}
	b := s
	b.PC += uint16(n) // D3
	b.vsStmtIM0(d)
	if b.Open {
		return true // not exactly one instruction
	}
	a := s
	a.vsImplIM0(d)
	if a.OvHit {
		return true // D4
	}
	return vsSameRegs(&a, &b) && a.PC == b.PC && a.SP == b.SP && a.R == b.R &&
		a.G.Mem == b.G.Mem && a.G.Rd == b.G.Rd && a.G.Wr == b.G.Wr && a.G.PIn == b.G.PIn && a.G.POut == b.G.POut &&
		a.G.Retn == b.G.Retn && a.G.Reti == b.G.Reti && (a.F^b.F)&a.Care == 0 && a.Care == b.Care
}
