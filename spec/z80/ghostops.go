package z80

// Small pure helpers used by contract clauses to describe ghost updates.

func vsBump64k(a [65536]uint8, i uint16) [65536]uint8 { a[i]++; return a }
func vsBump256(a [256]uint8, i uint8) [256]uint8       { a[i]++; return a }
func vsBumpWr(a [1 << 24]uint8, addr uint16, v uint8) [1 << 24]uint8 {
	a[uint32(addr)<<8|uint32(v)]++
	return a
}
func vsBumpOut(a [65536]uint8, p, v uint8) [65536]uint8 {
	a[uint16(p)<<8|uint16(v)]++
	return a
}
func vsStore(a [65536]uint8, i uint16, v uint8) [65536]uint8 { a[i] = v; return a }

func vsIteU8(c bool, a, b uint8) uint8 {
	if c {
		return a
	}
	return b
}
func vsIteU16(c bool, a, b uint16) uint16 {
	if c {
		return a
	}
	return b
}
func vsIte256(c bool, a, b [256]uint8) [256]uint8 {
	if c {
		return a
	}
	return b
}
func vsIte64k(c bool, a, b [65536]uint8) [65536]uint8 {
	if c {
		return a
	}
	return b
}
