package z80

// Small pure helpers used by contract clauses to describe ghost updates.

func vsBump64k(a [65536]uint8, i uint16) [65536]uint8 { a[i]++; return a }
func vsBump256(a [256]uint8, i uint8) [256]uint8       { a[i]++; return a }
func vsBumpWr(a [1 << 24]uint8, addr uint16, v uint8) [1 << 24]uint8 {
	a[uint32(addr)<<8|uint32(v)]++
	return a
}
func vsBumpOut(a [65536]uint8, p, v uint8) [65536]uint8 {
	a[uint16(p)<<8|uint16(v)]++
	return a
}
func vsStore(a [65536]uint8, i uint16, v uint8) [65536]uint8 { a[i] = v; return a }

// ordered access log (sequence-sensitive; see VGhost.Log)
func vsRdCode(a uint16) uint32         { return 1<<24 | uint32(a)<<8 }
func vsWrCode(a uint16, v uint8) uint32 { return 2<<24 | uint32(a)<<8 | uint32(v) }
func vsInCode(p uint8) uint32          { return 3<<24 | uint32(p)<<8 }
func vsOutCode(p, v uint8) uint32      { return 4<<24 | uint32(p)<<8 | uint32(v) }
func vsLogged(log [256]uint32, n uint8, code uint32) [256]uint32 {
	log[n] = code
	return log
}
func vsIteLog(c bool, a, b [256]uint32) [256]uint32 {
	if c {
		return a
	}
	return b
}

func vsIteU8(c bool, a, b uint8) uint8 {
	if c {
		return a
	}
	return b
}
func vsIteU16(c bool, a, b uint16) uint16 {
	if c {
		return a
	}
	return b
}
func vsIte256(c bool, a, b [256]uint8) [256]uint8 {
	if c {
		return a
	}
	return b
}
func vsIteWr(c bool, a, b [1 << 24]uint8) [1 << 24]uint8 {
	if c {
		return a
	}
	return b
}
func vsIte64k(c bool, a, b [65536]uint8) [65536]uint8 {
	if c {
		return a
	}
	return b
}

// vsGhostMem: m is the memory the ghost record g describes, i.e. a
// user-supplied Memory obeying the interface contract (plain byte store).  In
// proofs this is a ghost built-in of vcheck (true exactly for the opaque
// interface value); in the replay harness it recognises the recording memory.
func vsGhostMem(m Memory) bool {
	_, ok := m.(*VsRecMem)
	return ok
}

// Recording implementations of the user interfaces: they maintain the ghost
// record exactly as the interface call rule of vcheck does (used by replays).

type VsRecMem struct{ G *VGhost }

func (m *VsRecMem) Get(a uint16) uint8 {
	m.G.Rd[a]++
	m.G.Log[m.G.LogN] = vsRdCode(a)
	m.G.LogN++
	return m.G.Mem[a]
}
func (m *VsRecMem) Set(a uint16, v uint8) {
	m.G.Wr[uint32(a)<<8|uint32(v)]++
	m.G.Log[m.G.LogN] = vsWrCode(a, v)
	m.G.LogN++
	m.G.Mem[a] = v
}

type VsRecIO struct{ G *VGhost }

func (io *VsRecIO) In(p uint8) uint8 {
	io.G.PIn[p]++
	io.G.Log[io.G.LogN] = vsInCode(p)
	io.G.LogN++
	return io.G.InVal[p]
}
func (io *VsRecIO) Out(p uint8, v uint8) {
	io.G.POut[uint16(p)<<8|uint16(v)]++
	io.G.Log[io.G.LogN] = vsOutCode(p, v)
	io.G.LogN++
}

type VsRecHandler struct{ G *VGhost }

func (h *VsRecHandler) RETNHandle() { h.G.Retn++ }
func (h *VsRecHandler) RETIHandle() { h.G.Reti++ }


// mode-0 overlay (im0data): range test and guarded byte access
func vsOvIn(start, end, a uint16) bool { return a >= start && a <= end }
func vsOvByte(d []uint8, i uint16) uint8 {
	if int(i) < len(d) {
		return d[i]
	}
	return 0
}

// vsBPHit: pc is a member of the breakpoint set (a nil set has no members).
func vsBPHit(bp map[uint16]struct{}, pc uint16) bool {
	if bp == nil {
		return false
	}
	_, ok := bp[pc]
	return ok
}
