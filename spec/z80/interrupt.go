package z80

// Interrupt acceptance, clause by clause from the C06 statement.

// vsStmtIM0 executes the supplied instruction as the statement defines it:
// the bytes come from the interrupting device, PC is not advanced by their
// fetch, no memory read happens for them.
func (s *VState) vsStmtIM0(data []uint8) {
	s.IntMode, s.IntData, s.IntPos = true, data, 0
	s.Step()
	s.IntMode = false
	if s.IntPos != len(data) {
		s.Open = true // not exactly one instruction supplied: outside the statement
	}
}

// vsImplIM0 is what the emulator does today (known findings D3-D5): the
// supplied bytes overlay memory at [PC, PC+len-1] (inactive if that range
// wraps), the instruction is fetched through PC - which therefore advances -,
// data reads inside the range see the overlay, data writes into it are dropped.
func (s *VState) vsImplIM0(data []uint8) {
	s.OvMode, s.IntData = true, data
	s.OvStart = s.PC
	s.OvEnd = s.PC + uint16(len(data)-1)
	s.OvHit = false
	s.Step()
	s.OvMode = false
}

// stepInt: one Step with a pending request (typ 0 = NMI, 1 = maskable).
// Returns whether the request was accepted (consumed).  impl selects the
// as-implemented mode-0 semantics instead of the statement's.
func (s *VState) stepInt(typ int, data []uint8, impl bool) bool {
	// The request type is an enumeration of two values: NMIType (0) is the
	// non-maskable request, every other value is read as a maskable one.
	if typ == 0 { // NMI: always accepted
		s.push(s.PC)
		s.PC = 0x0066
		s.IFF2 = s.IFF1
		s.IFF1 = false
		return true
	}
	if !s.IFF1 { // refused: changes nothing, the program continues
		s.Step()
		return false
	}
	switch s.IM {
	case 1:
		s.IFF1, s.IFF2 = false, false
		s.push(s.PC)
		s.PC = 0x0038
	case 2:
		if len(data) == 0 {
			s.Open = true // no vector supplied: the statement is silent
			return true
		}
		s.IFF1, s.IFF2 = false, false
		s.push(s.PC)
		s.PC = s.rd16(uint16(s.I)<<8 | uint16(data[0]&0xfe))
	case 0:
		if len(data) == 0 {
			s.Open = true
			return true
		}
		s.IFF1, s.IFF2 = false, false
		if impl {
			s.vsImplIM0(data)
		} else {
			s.vsStmtIM0(data)
		}
	default:
		s.Open = true // IM outside 0..2 cannot occur on a Z80
		return false
	}
	return true
}

// vsStepDiff: postcondition of (*CPU).Step, with mode 0 as implemented today
// (known findings D3-D5); vsStepDiffStmt: the same with mode 0 as the statement
// defines it.  A mode-0 acceptance obligation is discharged by either.
func vsStepDiff(cpu, old_cpu *CPU, g, old_g *VGhost) uint64 {
	return vsStepDiffX(cpu, old_cpu, g, old_g, true)
}
func vsStepDiffStmt(cpu, old_cpu *CPU, g, old_g *VGhost) uint64 {
	return vsStepDiffX(cpu, old_cpu, g, old_g, false)
}
func vsStepDiffX(cpu, old_cpu *CPU, g, old_g *VGhost, impl bool) uint64 {
	var s VState
	vsLoad(&s, old_cpu, old_g)
	if old_cpu.Interrupt == nil {
		s.Step()
		return vsDiff(&s, cpu, g) | vsBit(cpu.Interrupt != nil, VsCompIntr)
	}
	acc := s.stepInt(int(old_cpu.Interrupt.Type), old_cpu.Interrupt.Data, impl)
	if s.Open {
		return 0
	}
	d := vsDiff(&s, cpu, g)
	if acc {
		d |= vsBit(cpu.Interrupt != nil, VsCompIntr) // consumed
	} else {
		d |= vsBit(cpu.Interrupt != old_cpu.Interrupt, VsCompIntr) // stays pending
	}
	return d
}

// vsIntDiff: postcondition of (*CPU).processInterrupt (requires a pending request).
func vsIntDiff(cpu, old_cpu *CPU, g, old_g *VGhost, accepted bool) uint64 {
	var s VState
	vsLoad(&s, old_cpu, old_g)
	typ := int(old_cpu.Interrupt.Type)
	if typ != 0 && !s.IFF1 {
		// refused: processInterrupt itself changes nothing and reports false
		return vsDiffRegs(&s, cpu, g) | vsBit(accepted, VsCompRet)
	}
	acc := s.stepInt(typ, old_cpu.Interrupt.Data, true)
	if s.Open {
		return 0
	}
	return vsDiff(&s, cpu, g) | vsBit(accepted != acc, VsCompRet)
}

// vsDiffRegs: vsDiff with F compared in full and R exactly.
func vsDiffRegs(s *VState, cpu *CPU, g *VGhost) uint64 {
	s.Care = 0xff
	s.RAlt = false
	return vsDiff(s, cpu, g)
}
