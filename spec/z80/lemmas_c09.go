package z80

// C09: block instructions as whole operations.  The per-Step contract (one
// element per Step, counters, pointers, flags, PC parked until done) is the
// arm obligations ED A0..BB of executeOne.  These lemmas are the inductive
// steps that lift it to the whole operation for a symbolic repetition index
// k: "if the invariant holds after k repetitions, one more Step either
// re-establishes it for k+1 or finishes with exactly the specified final
// state".  Base cases hold by definition (k = 0 is the start state); the
// induction principle itself is meta-level.

// ---- LDIR / LDDR on non-overlapping ranges (n = BC0 bytes, 1 <= n, ranges do
// not wrap, destination disjoint from source and from the two opcode bytes).
// Invariant after k repetitions (k < n):
//   BC = n-k, HL = HL0 +/- k, DE = DE0 +/- k, PC = PC0,
//   memory = mem0 with the first k destination bytes replaced by the first k source bytes.
// kcase 0: LDIR, 1: LDDR.
const vsLemma_C09_BlockCopyStep_N = 2

func vsCopied(mem0 [65536]uint8, hl0, de0, k uint16, down bool, a uint16) uint8 {
	if !down {
		if a >= de0 && a-de0 < k {
			return mem0[hl0+(a-de0)]
		}
	} else {
		if a <= de0 && de0-a < k {
			return mem0[hl0-(de0-a)]
		}
	}
	return mem0[a]
}

// The memory part of the invariant is  forall a. P(k, a)  with
// P(k, a): mem[a] == vsCopied(mem0, hl0, de0, k, a).  The step is proved in the
// instantiated form  P(k, a) && P(k, src) => P(k+1, a)  for an arbitrary a
// (a lemma parameter) and src = the cell read by this repetition, which
// implies  (forall a. P(k, a)) => (forall a. P(k+1, a))  without handing the
// solver a quantifier.
func vsLemma_C09_BlockCopyStep(kcase int, t VState, mem0 [65536]uint8, hl0, de0, n, k, a uint16) bool {
	down := kcase == 1
	op := uint8(0xb0)
	if down {
		op = 0xb8
	}
	pc0 := t.PC
	if !vsPlain(&t) || n < 1 || k >= n {
		return true
	}
	// ranges: no wrap, disjoint, opcode outside the destination
	if !down {
		if uint32(hl0)+uint32(n) > 65536 || uint32(de0)+uint32(n) > 65536 {
			return true
		}
		if !(uint32(hl0)+uint32(n) <= uint32(de0) || uint32(de0)+uint32(n) <= uint32(hl0)) {
			return true
		}
		if pc0 >= de0 && pc0-de0 < n || pc0+1 >= de0 && pc0+1-de0 < n {
			return true
		}
	} else {
		if hl0 < n-1 || de0 < n-1 {
			return true
		}
		if !(hl0 < de0-(n-1) || de0 < hl0-(n-1)) {
			return true
		}
		if pc0 <= de0 && de0-pc0 < n || pc0+1 <= de0 && de0-(pc0+1) < n {
			return true
		}
	}
	if mem0[pc0] != 0xed || mem0[pc0+1] != op {
		return true
	}
	// invariant at k
	dir := k
	if down {
		dir = -k
	}
	src := hl0 + dir
	inv := uint16(t.B)<<8|uint16(t.C) == n-k && uint16(t.H)<<8|uint16(t.L) == hl0+dir && uint16(t.D)<<8|uint16(t.E) == de0+dir &&
		t.G.Mem[a] == vsCopied(mem0, hl0, de0, k, down, a) && t.G.Mem[src] == vsCopied(mem0, hl0, de0, k, down, src) &&
		t.G.Mem[pc0] == vsCopied(mem0, hl0, de0, k, down, pc0) && t.G.Mem[pc0+1] == vsCopied(mem0, hl0, de0, k, down, pc0+1)
	if !inv {
		return true
	}
	u := t
	u.Step()
	k1 := k + 1
	dir1 := k1
	if down {
		dir1 = -k1
	}
	memOK := u.G.Mem[a] == vsCopied(mem0, hl0, de0, k1, down, a)
	regs := uint16(u.B)<<8|uint16(u.C) == n-k1 && uint16(u.H)<<8|uint16(u.L) == hl0+dir1 && uint16(u.D)<<8|uint16(u.E) == de0+dir1 &&
		u.A == t.A && u.SP == t.SP && u.IX == t.IX && u.IY == t.IY
	if k1 < n {
		return memOK && regs && u.PC == pc0 // unfinished: parked on the instruction
	}
	return memOK && regs && u.PC == pc0+2 && u.F&vsFPV == 0 // finished after exactly n repetitions, BC = 0
}

// ---- CPIR / CPDR: search.  Invariant after k repetitions: no match among the
// first k bytes, BC = BC0-k != 0, HL = HL0 +/- k, memory untouched.  One more
// Step: match -> finished with Z set and HL one past the match; BC exhausted ->
// finished with P/V clear; otherwise invariant at k+1.  kcase 0: CPIR, 1: CPDR.
const vsLemma_C09_BlockSearchStep_N = 2

func vsLemma_C09_BlockSearchStep(kcase int, t VState, mem0 [65536]uint8, hl0, bc0, k uint16) bool {
	down := kcase == 1
	op := uint8(0xb1)
	if down {
		op = 0xb9
	}
	pc0 := t.PC
	if !vsPlain(&t) || t.G.Mem != mem0 || mem0[pc0] != 0xed || mem0[pc0+1] != op {
		return true
	}
	dir := k
	if down {
		dir = -k
	}
	// k repetitions done and not finished: BC0-k != 0 and (counting BC0 = 0 as 65536) k < BC0
	if bc0 != 0 && k >= bc0 {
		return true
	}
	nomatch := vsForall16(func(j uint16) bool {
		if j >= k {
			return true
		}
		if down {
			return mem0[hl0-j] != t.A
		}
		return mem0[hl0+j] != t.A
	})
	if !(uint16(t.B)<<8|uint16(t.C) == bc0-k && uint16(t.H)<<8|uint16(t.L) == hl0+dir && nomatch) {
		return true
	}
	u := t
	u.Step()
	k1 := k + 1
	dir1 := k1
	if down {
		dir1 = -k1
	}
	common := u.G.Mem == mem0 && u.A == t.A && uint16(u.B)<<8|uint16(u.C) == bc0-k1 && uint16(u.H)<<8|uint16(u.L) == hl0+dir1
	cur := mem0[hl0+dir]
	switch {
	case cur == t.A: // first match: stop, Z set
		return common && u.PC == pc0+2 && u.F&vsFZ != 0
	case bc0-k1 == 0: // counter exhausted without a match
		return common && u.PC == pc0+2 && u.F&vsFZ == 0 && u.F&vsFPV == 0
	}
	return common && u.PC == pc0 && u.F&vsFZ == 0 && u.F&vsFPV != 0
}

// ---- INIR / INDR / OTIR / OTDR: exactly B0 transfers (256 when B0 = 0)
// through port C.  After k repetitions B = B0-k, HL = HL0 +/- k; one more Step
// makes exactly one port access on port C and either parks (B != 0) or
// finishes with B = 0, Z set.  kcase: 0 INIR, 1 INDR, 2 OTIR, 3 OTDR.
const vsLemma_C09_BlockIOStep_N = 4

func vsLemma_C09_BlockIOStep(kcase int, t VState, hl0 uint16, b0, k uint8) bool {
	op := []uint8{0xb2, 0xba, 0xb3, 0xbb}[kcase&3]
	down := kcase&1 == 1
	pc0 := t.PC
	hl := uint16(t.H)<<8 | uint16(t.L)
	if !vsPlain(&t) || t.NoIO || t.G.Mem[pc0] != 0xed || t.G.Mem[pc0+1] != op {
		return true
	}
	// for INIR/INDR the byte stored must not overwrite the instruction
	if kcase < 2 && (hl == pc0 || hl == pc0+1) {
		return true
	}
	dir := uint16(k)
	if down {
		dir = -dir
	}
	if b0 != 0 && k >= b0 {
		return true
	}
	if !(t.B == b0-k && hl == hl0+dir) {
		return true
	}
	u := t
	u.Step()
	k1 := k + 1
	dir1 := uint16(k) + 1
	if down {
		dir1 = -dir1
	}
	regs := u.B == b0-k1 && uint16(u.H)<<8|uint16(u.L) == hl0+dir1 && u.C == t.C && u.A == t.A
	var port bool
	if kcase < 2 {
		wantIn := t.G.PIn
		wantIn[t.C]++
		port = u.G.PIn == wantIn && u.G.POut == t.G.POut && u.G.Mem[hl] == t.G.InVal[t.C]
	} else {
		wantOut := t.G.POut
		wantOut[uint16(t.C)<<8|uint16(t.G.Mem[hl])]++
		port = u.G.POut == wantOut && u.G.PIn == t.G.PIn && u.G.Mem == t.G.Mem
	}
	if b0-k1 != 0 {
		return regs && port && u.PC == pc0 && u.F&vsFZ == 0
	}
	return regs && port && u.PC == pc0+2 && u.F&vsFZ != 0 // after exactly B0 (256 if 0) transfers
}
