package z80

// Abstraction from the real CPU object (+ ghost record) to VState, and the
// component-wise comparison used by the top-level postconditions.

// Component bits of the difference mask returned by the vs*Diff functions.
// vcheck reads these constants (prefix VsComp) to name failing components.
const (
	VsCompA = iota
	VsCompF
	VsCompB
	VsCompC
	VsCompD
	VsCompE
	VsCompH
	VsCompL
	VsCompA2
	VsCompF2
	VsCompB2
	VsCompC2
	VsCompD2
	VsCompE2
	VsCompH2
	VsCompL2
	VsCompIX
	VsCompIY
	VsCompSP
	VsCompPC
	VsCompI
	VsCompR
	VsCompIFF1
	VsCompIFF2
	VsCompIM
	VsCompHALT
	VsCompMem
	VsCompRd
	VsCompWr
	VsCompPIn
	VsCompPOut
	VsCompRetn
	VsCompReti
	VsCompIntr // the pending request field (Step only)
	VsCompRet  // the function's result (processInterrupt only)
)

func vsLoad(s *VState, cpu *CPU, g *VGhost) {
	s.A, s.F = cpu.AF.Hi, cpu.AF.Lo
	s.B, s.C = cpu.BC.Hi, cpu.BC.Lo
	s.D, s.E = cpu.DE.Hi, cpu.DE.Lo
	s.H, s.L = cpu.HL.Hi, cpu.HL.Lo
	s.A2, s.F2 = cpu.Alternate.AF.Hi, cpu.Alternate.AF.Lo
	s.B2, s.C2 = cpu.Alternate.BC.Hi, cpu.Alternate.BC.Lo
	s.D2, s.E2 = cpu.Alternate.DE.Hi, cpu.Alternate.DE.Lo
	s.H2, s.L2 = cpu.Alternate.HL.Hi, cpu.Alternate.HL.Lo
	s.IX, s.IY, s.SP, s.PC = cpu.IX, cpu.IY, cpu.SP, cpu.PC
	s.I, s.R = cpu.IR.Hi, cpu.IR.Lo
	s.IFF1, s.IFF2, s.IM = cpu.IFF1, cpu.IFF2, cpu.IM
	s.HALT = cpu.HALT
	s.G = *g
	s.NoIO = cpu.IO == nil
	s.HasRetn = cpu.RETNHandler != nil
	s.HasReti = cpu.RETIHandler != nil
	s.Care = 0xff
}

func vsBit(c bool, k uint) uint64 {
	if c {
		return 1 << k
	}
	return 0
}

// vsDiff returns the set of components in which the real post-state (cpu, g)
// differs from the specified post-state s.  F is compared under s.Care; R may
// be one short of the spec when s.RAlt (DDCB/FDCB: two or three fetches).
func vsDiff(s *VState, cpu *CPU, g *VGhost) uint64 {
	var d uint64
	d |= vsBit(cpu.AF.Hi != s.A, VsCompA)
	d |= vsBit((cpu.AF.Lo^s.F)&s.Care != 0, VsCompF)
	d |= vsBit(cpu.BC.Hi != s.B, VsCompB)
	d |= vsBit(cpu.BC.Lo != s.C, VsCompC)
	d |= vsBit(cpu.DE.Hi != s.D, VsCompD)
	d |= vsBit(cpu.DE.Lo != s.E, VsCompE)
	d |= vsBit(cpu.HL.Hi != s.H, VsCompH)
	d |= vsBit(cpu.HL.Lo != s.L, VsCompL)
	d |= vsBit(cpu.Alternate.AF.Hi != s.A2, VsCompA2)
	d |= vsBit(cpu.Alternate.AF.Lo != s.F2, VsCompF2)
	d |= vsBit(cpu.Alternate.BC.Hi != s.B2, VsCompB2)
	d |= vsBit(cpu.Alternate.BC.Lo != s.C2, VsCompC2)
	d |= vsBit(cpu.Alternate.DE.Hi != s.D2, VsCompD2)
	d |= vsBit(cpu.Alternate.DE.Lo != s.E2, VsCompE2)
	d |= vsBit(cpu.Alternate.HL.Hi != s.H2, VsCompH2)
	d |= vsBit(cpu.Alternate.HL.Lo != s.L2, VsCompL2)
	d |= vsBit(cpu.IX != s.IX, VsCompIX)
	d |= vsBit(cpu.IY != s.IY, VsCompIY)
	d |= vsBit(cpu.SP != s.SP, VsCompSP)
	d |= vsBit(cpu.PC != s.PC, VsCompPC)
	d |= vsBit(cpu.IR.Hi != s.I, VsCompI)
	rAlt := s.R&0x80 | (s.R-1)&0x7f
	d |= vsBit(!(cpu.IR.Lo == s.R || s.RAlt && cpu.IR.Lo == rAlt), VsCompR)
	d |= vsBit(cpu.IFF1 != s.IFF1, VsCompIFF1)
	d |= vsBit(cpu.IFF2 != s.IFF2, VsCompIFF2)
	d |= vsBit(cpu.IM != s.IM, VsCompIM)
	d |= vsBit(cpu.HALT != s.HALT, VsCompHALT)
	d |= vsBit(g.Mem != s.G.Mem, VsCompMem)
	d |= vsBit(g.Rd != s.G.Rd, VsCompRd)
	d |= vsBit(g.Wr != s.G.Wr, VsCompWr)
	d |= vsBit(g.PIn != s.G.PIn, VsCompPIn)
	d |= vsBit(g.POut != s.G.POut, VsCompPOut)
	d |= vsBit(g.Retn != s.G.Retn, VsCompRetn)
	d |= vsBit(g.Reti != s.G.Reti, VsCompReti)
	return d
}

// vsExecDiff: postcondition of (*CPU).executeOne – the post-state equals one
// reference Step (no interrupt handling) applied to the pre-state.
func vsExecDiff(cpu, old_cpu *CPU, g, old_g *VGhost) uint64 {
	var s VState
	vsLoad(&s, old_cpu, old_g)
	s.Step()
	return vsDiff(&s, cpu, g)
}
