package z80

// C12: the mode-0 overlay memory is total.  The Step/IM0 obligations run the
// supplied instruction with Data of the lengths 1..4; for every other length
// (and for the overlay seen through an arbitrary total base memory) totality
// of Step is compositional: executeOne is panic-free for every total Memory,
// and the overlay built by newIm0data is a total Memory.  This lemma is the
// second half, stated over the real functions: whatever pc and whatever
// non-empty Data the overlay is built from, Get and Set return normally for
// every address.  The real functions are seen through their contracts where
// those are discharged (then the obligation is "newIm0data establishes the
// type invariant Get/Set require") and through their bodies otherwise (then
// the index obligations of the bodies are the goals) - so the statement does
// not depend on the hand-written invariant surviving a rewrite of im0data.
func vsLemma_C12_Im0Total(pc uint16, d []uint8, base Memory, addr uint16, value uint8) bool {
	if len(d) < 1 || !vsGhostMem(base) {
		return true
	}
	im0 := newIm0data(pc, d, base)
	im0.Get(addr)
	im0.Set(addr, value)
	return true
}
