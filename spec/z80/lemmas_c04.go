package z80

// C04 round-trip lemmas over the reference Step (the code is tied to the
// reference Step by the arm obligations of executeOne).

// vsPlain: the state is an ordinary machine state (no mode-0 instruction supply active).
func vsPlain(s *VState) bool { return !s.IntMode && !s.OvMode && !s.Open }

func vsSameRegs(a, b *VState) bool {
	return a.A == b.A && a.F == b.F && a.B == b.B && a.C == b.C && a.D == b.D && a.E == b.E && a.H == b.H && a.L == b.L &&
		a.A2 == b.A2 && a.F2 == b.F2 && a.B2 == b.B2 && a.C2 == b.C2 && a.D2 == b.D2 && a.E2 == b.E2 && a.H2 == b.H2 && a.L2 == b.L2 &&
		a.IX == b.IX && a.IY == b.IY && a.I == b.I && a.IFF1 == b.IFF1 && a.IFF2 == b.IFF2 && a.IM == b.IM && a.HALT == b.HALT
}

// CALL nn at PC, RET at nn: two Steps resume right after the CALL with SP and
// all registers/flags restored.  Hypothesis: the two stack bytes do not
// overwrite the RET opcode (they may overlap the CALL itself).
func vsLemma_C04_CallRet(s VState) bool {
	pc := s.PC
	if !vsPlain(&s) {
		return true
	}
	if s.G.Mem[pc] != 0xcd {
		return true
	}
	nn := uint16(s.G.Mem[pc+2])<<8 | uint16(s.G.Mem[pc+1])
	if s.G.Mem[nn] != 0xc9 {
		return true
	}
	if s.SP-1 == nn || s.SP-2 == nn {
		return true
	}
	t := s
	t.Step()
	midOK := t.PC == nn && t.SP == s.SP-2 && t.G.Mem[s.SP-1] == uint8((pc+3)>>8) && t.G.Mem[s.SP-2] == uint8(pc+3)
	t.Step()
	return midOK && t.PC == pc+3 && t.SP == s.SP && vsSameRegs(&t, &s)
}

// Conditional CALL cc / RET cc: taken iff the condition holds; same round trip.
const vsLemma_C04_CallCcRetCc_N = 64

func vsLemma_C04_CallCcRetCc(kcase int, s VState) bool {
	y1, y2 := uint8(kcase&7), uint8(kcase>>3&7)
	pc := s.PC
	if !vsPlain(&s) {
		return true
	}
	if s.G.Mem[pc] != 0xc4|y1<<3 {
		return true
	}
	nn := uint16(s.G.Mem[pc+2])<<8 | uint16(s.G.Mem[pc+1])
	if s.G.Mem[nn] != 0xc0|y2<<3 {
		return true
	}
	if s.SP-1 == nn || s.SP-2 == nn {
		return true
	}
	t := s
	t.Step()
	if !vsCond(int(y1), s.F) {
		return t.PC == pc+3 && t.SP == s.SP && t.G.Mem == s.G.Mem && t.G.Wr == s.G.Wr && vsSameRegs(&t, &s)
	}
	if t.PC != nn || t.SP != s.SP-2 {
		return false
	}
	t.Step()
	if !vsCond(int(y2), s.F) {
		return t.PC == nn+1 && t.SP == s.SP-2 && vsSameRegs(&t, &s)
	}
	return t.PC == pc+3 && t.SP == s.SP && vsSameRegs(&t, &s)
}

// RST p then RET.
const vsLemma_C04_RstRet_N = 8

func vsLemma_C04_RstRet(kcase int, s VState) bool {
	y := uint8(kcase & 7)
	pc := s.PC
	if !vsPlain(&s) {
		return true
	}
	if s.G.Mem[pc] != 0xc7|y<<3 {
		return true
	}
	v := uint16(y) * 8
	if s.G.Mem[v] != 0xc9 || s.SP-1 == v || s.SP-2 == v {
		return true
	}
	t := s
	t.Step()
	ok := t.PC == v && t.SP == s.SP-2 && t.G.Mem[s.SP-1] == uint8((pc+1)>>8) && t.G.Mem[s.SP-2] == uint8(pc+1)
	t.Step()
	return ok && t.PC == pc+1 && t.SP == s.SP && vsSameRegs(&t, &s)
}

// PUSH qq ; POP qq is the identity on qq and SP (BC, DE, HL, AF), also across
// SP wraparound.  Hypothesis: the pushed bytes do not overwrite the POP opcode.
const vsLemma_C04_PushPop_N = 4

func vsLemma_C04_PushPop(kcase int, s VState) bool {
	p := uint8(kcase & 3)
	pc := s.PC
	if !vsPlain(&s) {
		return true
	}
	if s.G.Mem[pc] != 0xc5|p<<4 || s.G.Mem[pc+1] != 0xc1|p<<4 {
		return true
	}
	if s.SP-1 == pc+1 || s.SP-2 == pc+1 {
		return true
	}
	t := s
	t.Step()
	t.Step()
	return t.PC == pc+2 && t.SP == s.SP && vsSameRegs(&t, &s)
}

// PUSH IX ; POP IX and PUSH IY ; POP IY.
const vsLemma_C04_PushPopIndex_N = 2

func vsLemma_C04_PushPopIndex(kcase int, s VState) bool {
	pre := uint8(0xdd)
	if kcase == 1 {
		pre = 0xfd
	}
	pc := s.PC
	if !vsPlain(&s) {
		return true
	}
	if s.G.Mem[pc] != pre || s.G.Mem[pc+1] != 0xe5 || s.G.Mem[pc+2] != pre || s.G.Mem[pc+3] != 0xe1 {
		return true
	}
	if s.SP-1 == pc+2 || s.SP-2 == pc+2 || s.SP-1 == pc+3 || s.SP-2 == pc+3 {
		return true
	}
	t := s
	t.Step()
	t.Step()
	return t.PC == pc+4 && t.SP == s.SP && vsSameRegs(&t, &s)
}
