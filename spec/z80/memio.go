package z80

// Abstract views of the bundled memory / port types (C15) and the
// quantifier ghost built-ins used by their contracts.

// vsForall16 / vsForall8 / vsForallInt: universal quantification.  In proofs
// these are ghost built-ins of vcheck (the closure body becomes the body of an
// SMT quantifier); the replay harness evaluates them by enumeration.
func vsForall16(f func(k uint16) bool) bool {
	for k := 0; k < 65536; k++ {
		if !f(uint16(k)) {
			return false
		}
	}
	return true
}
func vsForall8(f func(k uint8) bool) bool {
	for k := 0; k < 256; k++ {
		if !f(uint8(k)) {
			return false
		}
	}
	return true
}

// vsForallIdx quantifies over slice indices; the replay harness enumerates 0..1<<17.
func vsForallIdx(f func(i int) bool) bool {
	for i := 0; i < 1<<17; i++ {
		if !f(i) {
			return false
		}
	}
	return true
}

// view of a slice-backed store: beyond the slice every address reads as 0
func vsSliceView(s []uint8, a uint16) uint8 {
	if int(a) < len(s) {
		return s[a]
	}
	return 0
}
func vsSliceView8(s []uint8, a uint8) uint8 {
	if int(a) < len(s) {
		return s[a]
	}
	return 0
}

// view of the map-backed store: 0xC7 where nothing was written
func vsMapHas(m MapMemory, k uint16) bool { _, ok := m[k]; return ok }
func vsMapAt(m MapMemory, k uint16) uint8 { return m[k] }
func vsMapView(m MapMemory, k uint16) uint8 {
	if v, ok := m[k]; ok {
		return v
	}
	return 0xC7
}

// vsMapsEqual: both nil or both non-nil with the same keys and values.
func vsMapsEqual(a, b MapMemory) bool {
	return (a == nil) == (b == nil) && vsForall16(func(k uint16) bool {
		return vsMapHas(a, k) == vsMapHas(b, k) && vsMapAt(a, k) == vsMapAt(b, k)
	})
}

// vsPutByte: byte i of a slice store after Put(addr, data...).
func vsPutByte(old []uint8, addr int, data []uint8, i int) uint8 {
	if i >= addr && i-addr < len(data) {
		return data[i-addr]
	}
	if i >= 0 && i < len(old) {
		return old[i]
	}
	return 0
}

// vsPutViewN: view of the map store after the first n bytes of Put(addr, data...)
// (addresses wrap modulo 65536; requires n <= len(data) <= 65536).
func vsPutViewN(old MapMemory, addr uint16, data []uint8, k uint16, n int) uint8 {
	d := int(k - addr)
	if d < n && d < len(data) {
		return data[d]
	}
	return vsMapView(old, k)
}
func vsPutView(old MapMemory, addr uint16, data []uint8, k uint16) uint8 {
	return vsPutViewN(old, addr, data, k, len(data))
}

// vsEqualSpec: Equal is true exactly for an initialised MapMemory argument
// with identical contents (two nil maps also compare equal, as reflect does).
func vsEqualSpec(mm MapMemory, a0 interface{}) bool {
	a, ok := a0.(MapMemory)
	return ok && vsMapsEqual(mm, a)
}

// vsFreshMap: the map was created by the function under verification, so no
// later write through it can be seen through any map the caller held before.
// Ghost built-in of vcheck (object freshness); the replay harness cannot
// observe identity and accepts any non-nil map.
func vsFreshMap(m MapMemory) bool { return m != nil }
