package z80

// Support code for the replay harness (concrete execution only; never part of
// a proof): recording Memory/IO/handler implementations that maintain the
// ghost record exactly as the interface call rule of vcheck does, and printers.

import (
	"fmt"
	"strings"
)

var vsCompNameList = []string{"A", "F", "B", "C", "D", "E", "H", "L", "A2", "F2", "B2", "C2", "D2", "E2", "H2", "L2",
	"IX", "IY", "SP", "PC", "I", "R", "IFF1", "IFF2", "IM", "HALT", "Mem", "Rd", "Wr", "PIn", "POut", "Retn", "Reti", "Intr", "Ret"}

func vsCompNames(d uint64) string {
	var out []string
	for k, n := range vsCompNameList {
		if d&(1<<uint(k)) != 0 {
			out = append(out, n)
		}
	}
	return strings.Join(out, " ")
}

func vsDescribe(c *CPU) string {
	return fmt.Sprintf("AF=%02x%02x BC=%02x%02x DE=%02x%02x HL=%02x%02x AF'=%02x%02x BC'=%02x%02x DE'=%02x%02x HL'=%02x%02x IX=%04x IY=%04x SP=%04x PC=%04x I=%02x R=%02x IFF1=%v IFF2=%v IM=%d HALT=%v",
		c.AF.Hi, c.AF.Lo, c.BC.Hi, c.BC.Lo, c.DE.Hi, c.DE.Lo, c.HL.Hi, c.HL.Lo,
		c.Alternate.AF.Hi, c.Alternate.AF.Lo, c.Alternate.BC.Hi, c.Alternate.BC.Lo, c.Alternate.DE.Hi, c.Alternate.DE.Lo, c.Alternate.HL.Hi, c.Alternate.HL.Lo,
		c.IX, c.IY, c.SP, c.PC, c.IR.Hi, c.IR.Lo, c.IFF1, c.IFF2, c.IM, c.HALT)
}

func vsDescribeState(s *VState) string {
	return fmt.Sprintf("AF=%02x%02x BC=%02x%02x DE=%02x%02x HL=%02x%02x AF'=%02x%02x BC'=%02x%02x DE'=%02x%02x HL'=%02x%02x IX=%04x IY=%04x SP=%04x PC=%04x I=%02x R=%02x IFF1=%v IFF2=%v IM=%d HALT=%v care=%02x unimpl=%v",
		s.A, s.F, s.B, s.C, s.D, s.E, s.H, s.L, s.A2, s.F2, s.B2, s.C2, s.D2, s.E2, s.H2, s.L2,
		s.IX, s.IY, s.SP, s.PC, s.I, s.R, s.IFF1, s.IFF2, s.IM, s.HALT, s.Care, s.Unimpl)
}

func vsDescribeSpec(old *CPU, oldG *VGhost) string {
	s := new(VState)
	vsLoad(s, old, oldG)
	if old.Interrupt != nil {
		acc := s.stepInt(int(old.Interrupt.Type), old.Interrupt.Data, true)
		return fmt.Sprintf("accepted=%v open=%v ", acc, s.Open) + vsDescribeState(s) + " | accesses: " + vsDescribeBus(&s.G, oldG)
	}
	s.Step()
	return vsDescribeState(s) + " | accesses: " + vsDescribeBus(&s.G, oldG)
}

// vsDescribeBus lists the accesses made between two ghost records.
func vsDescribeBus(g, old *VGhost) string {
	var out []string
	for a := 0; a < 65536; a++ {
		for k := old.Rd[a]; k != g.Rd[a]; k++ {
			out = append(out, fmt.Sprintf("R%04x", a))
		}
	}
	for k := 0; k < 1<<24; k++ {
		for n := old.Wr[k]; n != g.Wr[k]; n++ {
			out = append(out, fmt.Sprintf("W%04x=%02x", k>>8, k&0xff))
		}
	}
	for p := 0; p < 256; p++ {
		for n := old.PIn[p]; n != g.PIn[p]; n++ {
			out = append(out, fmt.Sprintf("IN%02x", p))
		}
	}
	for k := 0; k < 65536; k++ {
		for n := old.POut[k]; n != g.POut[k]; n++ {
			out = append(out, fmt.Sprintf("OUT%02x=%02x", k>>8, k&0xff))
		}
	}
	if g.Retn != old.Retn {
		out = append(out, fmt.Sprintf("RETN-handler x%d", g.Retn-old.Retn))
	}
	if g.Reti != old.Reti {
		out = append(out, fmt.Sprintf("RETI-handler x%d", g.Reti-old.Reti))
	}
	return strings.Join(out, " ")
}

// vsRelDiff: differences between two post-states for the relational DD/FD
// obligations (kind DDFD: IX/IY exchanged back; NI-DD / NI-FD: the other index
// register is ignored).
func vsRelDiff(kind string, c1 *CPU, g1 *VGhost, c2 *CPU, g2 *VGhost, pc uint16) string {
	var out []string
	a, b := *c1, *c2
	switch kind {
	case "DDFD":
		b.IX, b.IY = b.IY, b.IX
	case "NI-DD":
		a.IY, b.IY = 0, 0
	case "NI-FD":
		a.IX, b.IX = 0, 0
	}
	if a.States != b.States || a.HALT != b.HALT {
		out = append(out, "registers: ["+vsDescribe(&a)+"] vs ["+vsDescribe(&b)+"]")
	}
	if g1.LogN != g2.LogN {
		out = append(out, fmt.Sprintf("number of accesses %d vs %d", g1.LogN, g2.LogN))
	}
	var l1, l2 []string
	for i := uint8(0); i != g1.LogN; i++ {
		l1 = append(l1, fmt.Sprintf("%08x", g1.Log[i]))
	}
	for i := uint8(0); i != g2.LogN; i++ {
		l2 = append(l2, fmt.Sprintf("%08x", g2.Log[i]))
	}
	if strings.Join(l1, " ") != strings.Join(l2, " ") {
		out = append(out, "access sequence ["+strings.Join(l1, " ")+"] vs ["+strings.Join(l2, " ")+"]")
	}
	for i := 0; i < 65536; i++ {
		if g1.Mem[i] != g2.Mem[i] && !(uint16(i) == pc && kind == "DDFD" && g1.Mem[i] == 0xdd && g2.Mem[i] == 0xfd) {
			out = append(out, fmt.Sprintf("mem[%04x] %02x vs %02x", i, g1.Mem[i], g2.Mem[i]))
			break
		}
	}
	return strings.Join(out, "; ")
}
