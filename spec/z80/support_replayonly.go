package z80

// Support code for the replay harness (concrete execution only; never part of
// a proof): recording Memory/IO/handler implementations that maintain the
// ghost record exactly as the interface call rule of vcheck does, and printers.

import (
	"fmt"
	"strings"
)

var vsCompNameList = []string{"A", "F", "B", "C", "D", "E", "H", "L", "A2", "F2", "B2", "C2", "D2", "E2", "H2", "L2",
	"IX", "IY", "SP", "PC", "I", "R", "IFF1", "IFF2", "IM", "HALT", "Mem", "Rd", "Wr", "PIn", "POut", "Retn", "Reti", "Intr", "Ret"}

func vsCompNames(d uint64) string {
	var out []string
	for k, n := range vsCompNameList {
		if d&(1<<uint(k)) != 0 {
			out = append(out, n)
		}
	}
	return strings.Join(out, " ")
}

func vsDescribe(c *CPU) string {
	return fmt.Sprintf("AF=%02x%02x BC=%02x%02x DE=%02x%02x HL=%02x%02x AF'=%02x%02x BC'=%02x%02x DE'=%02x%02x HL'=%02x%02x IX=%04x IY=%04x SP=%04x PC=%04x I=%02x R=%02x IFF1=%v IFF2=%v IM=%d HALT=%v",
		c.AF.Hi, c.AF.Lo, c.BC.Hi, c.BC.Lo, c.DE.Hi, c.DE.Lo, c.HL.Hi, c.HL.Lo,
		c.Alternate.AF.Hi, c.Alternate.AF.Lo, c.Alternate.BC.Hi, c.Alternate.BC.Lo, c.Alternate.DE.Hi, c.Alternate.DE.Lo, c.Alternate.HL.Hi, c.Alternate.HL.Lo,
		c.IX, c.IY, c.SP, c.PC, c.IR.Hi, c.IR.Lo, c.IFF1, c.IFF2, c.IM, c.HALT)
}

func vsDescribeState(s *VState) string {
	return fmt.Sprintf("AF=%02x%02x BC=%02x%02x DE=%02x%02x HL=%02x%02x AF'=%02x%02x BC'=%02x%02x DE'=%02x%02x HL'=%02x%02x IX=%04x IY=%04x SP=%04x PC=%04x I=%02x R=%02x IFF1=%v IFF2=%v IM=%d HALT=%v care=%02x unimpl=%v",
		s.A, s.F, s.B, s.C, s.D, s.E, s.H, s.L, s.A2, s.F2, s.B2, s.C2, s.D2, s.E2, s.H2, s.L2,
		s.IX, s.IY, s.SP, s.PC, s.I, s.R, s.IFF1, s.IFF2, s.IM, s.HALT, s.Care, s.Unimpl)
}

func vsDescribeSpec(old *CPU, oldG *VGhost) string {
	s := new(VState)
	vsLoad(s, old, oldG)
	if old.Interrupt != nil {
		acc := s.stepInt(int(old.Interrupt.Type), old.Interrupt.Data, true)
		return fmt.Sprintf("accepted=%v open=%v ", acc, s.Open) + vsDescribeState(s) + " | accesses: " + vsDescribeBus(&s.G, oldG)
	}
	s.Step()
	return vsDescribeState(s) + " | accesses: " + vsDescribeBus(&s.G, oldG)
}

// vsDescribeBus lists the accesses made between two ghost records.
func vsDescribeBus(g, old *VGhost) string {
	var out []string
	for a := 0; a < 65536; a++ {
		for k := old.Rd[a]; k != g.Rd[a]; k++ {
			out = append(out, fmt.Sprintf("R%04x", a))
		}
	}
	for k := 0; k < 1<<24; k++ {
		for n := old.Wr[k]; n != g.Wr[k]; n++ {
			out = append(out, fmt.Sprintf("W%04x=%02x", k>>8, k&0xff))
		}
	}
	for p := 0; p < 256; p++ {
		for n := old.PIn[p]; n != g.PIn[p]; n++ {
			out = append(out, fmt.Sprintf("IN%02x", p))
		}
	}
	for k := 0; k < 65536; k++ {
		for n := old.POut[k]; n != g.POut[k]; n++ {
			out = append(out, fmt.Sprintf("OUT%02x=%02x", k>>8, k&0xff))
		}
	}
	if g.Retn != old.Retn {
		out = append(out, fmt.Sprintf("RETN-handler x%d", g.Retn-old.Retn))
	}
	if g.Reti != old.Reti {
		out = append(out, fmt.Sprintf("RETI-handler x%d", g.Reti-old.Reti))
	}
	return strings.Join(out, " ")
}
