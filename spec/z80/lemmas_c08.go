package z80

// C08 lemmas over the reference Step (tied to the code by the contracts of
// executeOne / Step).

// The halted indication is raised only by executing a HALT opcode, and then
// PC still addresses that opcode.  (kcase = first opcode byte.)
const vsLemma_C08_HaltOnlyByHALT_N = 256

func vsLemma_C08_HaltOnlyByHALT(kcase int, s VState) bool {
	if !vsPlain(&s) || s.HALT || s.G.Mem[s.PC] != uint8(kcase) {
		return true
	}
	t := s
	t.Step()
	if !t.HALT {
		return true
	}
	return kcase == 0x76 && t.PC == s.PC
}

// Re-running from a halted CPU: the Step executes the HALT again and leaves
// PC, SP, every register, flag and memory unchanged (only R advances), halted
// again.  With Run's contract (HALT cleared on entry, stops after the first Step
// that halts) a second Run therefore halts again at the same address.
func vsLemma_C08_RehaltIsIdempotent(s VState) bool {
	if !vsPlain(&s) || s.G.Mem[s.PC] != 0x76 {
		return true
	}
	t := s
	t.HALT = false // Run discards the stale indication
	t.Step()
	u := t
	u.HALT = s.HALT
	return t.HALT && t.PC == s.PC && t.SP == s.SP && t.G.Mem == s.G.Mem && t.G.Wr == s.G.Wr && vsSameRegs(&u, &s)
}
