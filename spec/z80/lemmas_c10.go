package z80

// C10: the outcome of a Step is a function of the public state (registers,
// flags, IFF/IM, pending request), the memory contents and the bytes ports
// return - and of nothing else.  Step's contract (C06) makes the real
// post-state equal to the reference post-state; this lemma shows that the
// reference post-state does not depend on anything outside that snapshot:
// two states that agree on the snapshot but differ arbitrarily in the halted
// indication, in the access history (bags, log) and in which handlers are
// registered have post-states that agree on the snapshot again.
// kcase < 256: no request pending, first opcode byte = kcase (prefix bytes are
// skipped here); 256..1279: prefix CB/DD/ED/FD with second byte; 1280: NMI;
// 1281: maskable request accepted in mode 1; 1282: in mode 2.  A refused
// request executes the program's instruction (the cases < 1280); mode 0
// executes the supplied instruction through the same reference Step.

const vsLemma_C10_SnapshotDeterminism_N = 1283

func vsSameSnapshot(a, b *VState) bool {
	return vsSameRegs2(a, b) && a.PC == b.PC && a.SP == b.SP && a.R == b.R && a.G.Mem == b.G.Mem && a.G.InVal == b.G.InVal && a.NoIO == b.NoIO
}

func vsSameRegs2(a, b *VState) bool {
	return a.A == b.A && a.F == b.F && a.B == b.B && a.C == b.C && a.D == b.D && a.E == b.E && a.H == b.H && a.L == b.L &&
		a.A2 == b.A2 && a.F2 == b.F2 && a.B2 == b.B2 && a.C2 == b.C2 && a.D2 == b.D2 && a.E2 == b.E2 && a.H2 == b.H2 && a.L2 == b.L2 &&
		a.IX == b.IX && a.IY == b.IY && a.I == b.I && a.IFF1 == b.IFF1 && a.IFF2 == b.IFF2 && a.IM == b.IM
}

func vsLemma_C10_SnapshotDeterminism(kcase int, s, o VState, d []uint8) bool {
	s.IntData = d // scratch field of the spec state, overwritten by acceptance anyway
	if !vsPlain(&s) {
		return true
	}
	s.Care = 0xff
	// t: the same snapshot, everything outside it taken from the arbitrary o
	t := s
	t.HALT = o.HALT
	t.G.Rd, t.G.Wr, t.G.PIn, t.G.POut = o.G.Rd, o.G.Wr, o.G.PIn, o.G.POut
	t.G.Retn, t.G.Reti, t.G.Log, t.G.LogN, t.G.Stepped = o.G.Retn, o.G.Reti, o.G.Log, o.G.LogN, o.G.Stepped
	t.HasRetn, t.HasReti = o.HasRetn, o.HasReti
	var accS, accT bool
	switch {
	case kcase < 256:
		if kcase == 0xcb || kcase == 0xdd || kcase == 0xed || kcase == 0xfd || s.G.Mem[s.PC] != uint8(kcase) {
			return true
		}
		s.Step()
		t.Step()
	case kcase < 1280:
		pre := uint8(0xcb)
		switch (kcase - 256) >> 8 {
		case 1:
			pre = 0xdd
		case 2:
			pre = 0xed
		case 3:
			pre = 0xfd
		}
		if s.G.Mem[s.PC] != pre || s.G.Mem[s.PC+1] != uint8(kcase) {
			return true
		}
		s.Step()
		t.Step()
	case kcase == 1280:
		accS, accT = s.stepInt(0, d, true), t.stepInt(0, d, true)
	default:
		if !s.IFF1 || s.IM != kcase-1280 {
			return true
		}
		accS, accT = s.stepInt(1, d, true), t.stepInt(1, d, true)
	}
	if s.Open || t.Open {
		return s.Open == t.Open
	}
	// same new snapshot, same accesses made during the Step are not required
	// (they are C05's subject); F is compared on the bits the instruction defines
	u := s
	u.F = t.F
	return accS == accT && vsSameSnapshot(&u, &t) && (s.F^t.F)&s.Care == 0 && s.Care == t.Care
}
