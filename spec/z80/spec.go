package z80

// Reference semantics of the Z80 used as the specification side of every
// contract (trusted base; see DESIGN.md §2.4).  It is written independently of
// the structure of the code under verification: algorithmic x/y/z/p/q decode,
// DD/FD as index substitution, textbook flag definitions.  Loop-free Go, so the
// same text is (a) executed symbolically by vcheck and (b) compiled and run
// concretely by the replay harness.  All identifiers start with vs/VS/V.

// VGhost is the ghost state at the interface boundary: memory contents behind
// cpu.Memory, and bags (count arrays) of the accesses made through the
// Memory / IO / handler interfaces.
type VGhost struct {
	Mem   [65536]uint8   // contents behind cpu.Memory
	Rd    [65536]uint8   // number of Get(addr) calls per address
	Wr    [1 << 24]uint8 // number of Set(addr,value) calls per (addr<<8|value)
	PIn   [256]uint8     // number of In(port) calls per port
	POut  [65536]uint8   // number of Out(port,value) calls per (port<<8|value)
	InVal [256]uint8     // value the device answers for In(port)
	Retn  uint8          // calls of RETNHandler.RETNHandle
	Reti  uint8          // calls of RETIHandler.RETIHandle
	Log   [256]uint32    // ordered log of the bus/port accesses (ring buffer), used only
	LogN  uint8          // by the relational DD/FD obligations of C11 (sequence, not bag)

	Stepped bool // (*CPU).Step has been called (set by the call rule; used by Run's contract)
}

// VState is the complete abstract machine state.
type VState struct {
	A, F, B, C, D, E, H, L         uint8
	A2, F2, B2, C2, D2, E2, H2, L2 uint8
	IX, IY, SP, PC                 uint16
	I, R                           uint8
	IFF1, IFF2                     bool
	IM                             int
	HALT                           bool
	G                              VGhost
	NoIO                           bool // no I/O device attached: reads give 0, nothing is logged
	HasRetn, HasReti               bool // handlers registered

	// instruction supply for mode-0 interrupt acceptance (see interrupt.go)
	OpPC    uint16  // PC of the instruction being executed (HALT / block repeats park here)
	IntMode bool    // statement semantics: opcode/operand bytes come from IntData, PC is not advanced
	IntData []uint8 // bytes supplied by the interrupting device
	IntPos  int     // number of supplied bytes consumed
	OvMode  bool    // as-implemented semantics: IntData overlays memory at [OvStart, OvEnd]
	OvStart uint16
	OvEnd   uint16
	OvHit   bool // a data access (not an instruction fetch) fell into the overlay range
	InFetch bool

	// outputs of one step that are not machine state
	Open   bool  // the statement leaves this case open: nothing is compared
	Care   uint8 // F bits the Z80 defines for the executed instruction
	RAlt   bool  // DDCB/FDCB: R may have advanced by 2 or by 3
	Unimpl bool  // the encoding is not implemented: consumed, nothing else changes
}

const (
	vsFC  = 0x01
	vsFN  = 0x02
	vsFPV = 0x04
	vsF3  = 0x08
	vsFH  = 0x10
	vsF5  = 0x20
	vsFZ  = 0x40
	vsFS  = 0x80
)

// ---------------------------------------------------------------- pure helpers

type VsRF struct{ R, F uint8 }
type VsRF16 struct {
	R uint16
	F uint8
}

func vsParity(v uint8) bool { v ^= v >> 4; v ^= v >> 2; v ^= v >> 1; return v&1 == 0 }
func vsB2f(c bool, m uint8) uint8 {
	if c {
		return m
	}
	return 0
}
func vsSZ53(r uint8) uint8 { return r&(vsFS|vsF5|vsF3) | vsB2f(r == 0, vsFZ) }

// vsAdd8: a + b + cin with all flags (N=0).
func vsAdd8(a, b, cin uint8) VsRF {
	sum := uint16(a) + uint16(b) + uint16(cin)
	r := uint8(sum)
	ss := int16(int8(a)) + int16(int8(b)) + int16(cin)
	return VsRF{r, vsSZ53(r) | vsB2f((a&0xf)+(b&0xf)+cin > 0xf, vsFH) | vsB2f(ss > 127 || ss < -128, vsFPV) | vsB2f(sum > 0xff, vsFC)}
}

// vsSub8: a - b - cin with all flags (N=1).
func vsSub8(a, b, cin uint8) VsRF {
	r := a - b - cin
	ss := int16(int8(a)) - int16(int8(b)) - int16(cin)
	return VsRF{r, vsSZ53(r) | vsFN | vsB2f(uint16(a&0xf) < uint16(b&0xf)+uint16(cin), vsFH) | vsB2f(ss > 127 || ss < -128, vsFPV) | vsB2f(uint16(a) < uint16(b)+uint16(cin), vsFC)}
}

// vsCp8: flags of a - b with bits 3/5 from the operand.
func vsCp8(a, b uint8) VsRF {
	x := vsSub8(a, b, 0)
	return VsRF{x.R, x.F&^(vsF5|vsF3) | b&(vsF5|vsF3)}
}

func vsAnd8(a, b uint8) VsRF {
	r := a & b
	return VsRF{r, vsSZ53(r) | vsFH | vsB2f(vsParity(r), vsFPV)}
}
func vsOr8(a, b uint8) VsRF {
	r := a | b
	return VsRF{r, vsSZ53(r) | vsB2f(vsParity(r), vsFPV)}
}
func vsXor8(a, b uint8) VsRF {
	r := a ^ b
	return VsRF{r, vsSZ53(r) | vsB2f(vsParity(r), vsFPV)}
}

// vsInc8 / vsDec8: C is preserved from f.
func vsInc8(v, f uint8) VsRF {
	x := vsAdd8(v, 1, 0)
	return VsRF{x.R, x.F&^vsFC | f&vsFC}
}
func vsDec8(v, f uint8) VsRF {
	x := vsSub8(v, 1, 0)
	return VsRF{x.R, x.F&^vsFC | f&vsFC}
}

// vsRot: the eight CB rotate/shift kinds (RLC RRC RL RR SLA SRA SLL SRL).
func vsRot(y int, v, f uint8) VsRF {
	c := f & vsFC
	var r, cy uint8
	switch y {
	case 0:
		r, cy = v<<1|v>>7, v>>7
	case 1:
		r, cy = v>>1|v<<7, v&1
	case 2:
		r, cy = v<<1|c, v>>7
	case 3:
		r, cy = v>>1|c<<7, v&1
	case 4:
		r, cy = v<<1, v>>7
	case 5:
		r, cy = v>>1|v&0x80, v&1
	case 6:
		r, cy = v<<1|1, v>>7
	default:
		r, cy = v>>1, v&1
	}
	return VsRF{r, vsSZ53(r) | vsB2f(vsParity(r), vsFPV) | cy}
}

// vsBitF: flags of BIT y,v without bits 3/5 (callers add them where defined).
func vsBitF(y uint8, v, f uint8) uint8 {
	zf := v&(1<<y) == 0
	return f&vsFC | vsFH | vsB2f(zf, vsFZ|vsFPV) | vsB2f(y == 7 && !zf, vsFS)
}

func vsAdd16(a, b uint16, f uint8) VsRF16 {
	sum := uint32(a) + uint32(b)
	r := uint16(sum)
	return VsRF16{r, f&(vsFS|vsFZ|vsFPV) | uint8(r>>8)&(vsF5|vsF3) | vsB2f((a&0xfff)+(b&0xfff) > 0xfff, vsFH) | vsB2f(sum > 0xffff, vsFC)}
}
func vsAdc16(a, b uint16, f uint8) VsRF16 {
	c := uint16(f & vsFC)
	r := a + b + c
	ss := int32(int16(a)) + int32(int16(b)) + int32(c)
	fl := vsB2f(uint32(a&0xfff)+uint32(b&0xfff)+uint32(c) > 0xfff, vsFH) | vsB2f(ss > 32767 || ss < -32768, vsFPV) | vsB2f(uint32(a)+uint32(b)+uint32(c) > 0xffff, vsFC)
	fl |= uint8(r>>8)&(vsFS|vsF5|vsF3) | vsB2f(r == 0, vsFZ)
	return VsRF16{r, fl}
}
func vsSbc16(a, b uint16, f uint8) VsRF16 {
	c := uint16(f & vsFC)
	r := a - b - c
	ss := int32(int16(a)) - int32(int16(b)) - int32(c)
	fl := vsFN | vsB2f(uint32(a&0xfff) < uint32(b&0xfff)+uint32(c), vsFH) | vsB2f(ss > 32767 || ss < -32768, vsFPV) | vsB2f(uint32(a) < uint32(b)+uint32(c), vsFC)
	fl |= uint8(r>>8)&(vsFS|vsF5|vsF3) | vsB2f(r == 0, vsFZ)
	return VsRF16{r, fl}
}

// vsDaa: decimal adjust by the standard correction table.
func vsDaa(a, f uint8) VsRF {
	n, h := f&vsFN != 0, f&vsFH != 0
	cy := f&vsFC != 0
	lo := a & 0xf
	var corr uint8
	if h || lo > 9 {
		corr |= 6
	}
	if cy || a > 0x99 {
		corr |= 0x60
		cy = true
	}
	var r uint8
	var ho bool
	if n {
		r, ho = a-corr, h && lo < 6
	} else {
		r, ho = a+corr, lo > 9
	}
	return VsRF{r, vsSZ53(r) | f&vsFN | vsB2f(ho, vsFH) | vsB2f(vsParity(r), vsFPV) | vsB2f(cy, vsFC)}
}

func vsIncR(r uint8) uint8 { return r&0x80 | (r+1)&0x7f }

func vsAddrOff(a uint16, d uint8) uint16 { return a + uint16(int16(int8(d))) }

// ---------------------------------------------------------------- bus

func (s *VState) rd(a uint16) uint8 {
	if s.OvMode && a >= s.OvStart && a <= s.OvEnd {
		// the mode-0 overlay answers instead of memory (no bus access)
		if !s.InFetch {
			s.OvHit = true
		}
		return s.IntData[a-s.OvStart]
	}
	s.G.Rd[a]++
	return s.G.Mem[a]
}
func (s *VState) wr(a uint16, v uint8) {
	if s.OvMode && a >= s.OvStart && a <= s.OvEnd {
		s.OvHit = true
		return // writes into the overlay range are dropped
	}
	s.G.Wr[uint32(a)<<8|uint32(v)]++
	s.G.Mem[a] = v
}
func (s *VState) rd16(a uint16) uint16 { l := s.rd(a); h := s.rd(a + 1); return uint16(h)<<8 | uint16(l) }
func (s *VState) wr16(a uint16, v uint16) { s.wr(a, uint8(v)); s.wr(a+1, uint8(v>>8)) }
func (s *VState) fetch() uint8 {
	if s.IntMode {
		// supplied by the interrupting device: no memory access, PC not advanced
		var v uint8
		if s.IntPos < len(s.IntData) {
			v = s.IntData[s.IntPos]
		} else {
			s.Open = true // fewer bytes supplied than the instruction needs
		}
		s.IntPos++
		return v
	}
	s.InFetch = true
	v := s.rd(s.PC)
	s.InFetch = false
	s.PC++
	return v
}
func (s *VState) fetch16() uint16       { l := s.fetch(); h := s.fetch(); return uint16(h)<<8 | uint16(l) }
func (s *VState) m1() uint8             { v := s.fetch(); s.R = vsIncR(s.R); return v }
func (s *VState) push(v uint16)         { s.SP -= 2; s.wr16(s.SP, v) }
func (s *VState) pop() uint16           { v := s.rd16(s.SP); s.SP += 2; return v }
func (s *VState) pin(p uint8) uint8 {
	if s.NoIO {
		return 0
	}
	s.G.PIn[p]++
	return s.G.InVal[p]
}
func (s *VState) pout(p uint8, v uint8) {
	if s.NoIO {
		return
	}
	s.G.POut[uint16(p)<<8|uint16(v)]++
}
func (s *VState) setF(f uint8, care uint8) {
	s.F = f
	s.Care = care
}

// ---------------------------------------------------------------- operands

type vsIdx int

const (
	vsHL vsIdx = iota
	vsIX
	vsIY
)

func (s *VState) hlx(m vsIdx) uint16 {
	switch m {
	case vsIX:
		return s.IX
	case vsIY:
		return s.IY
	}
	return uint16(s.H)<<8 | uint16(s.L)
}
func (s *VState) setHLx(m vsIdx, v uint16) {
	switch m {
	case vsIX:
		s.IX = v
	case vsIY:
		s.IY = v
	default:
		s.H, s.L = uint8(v>>8), uint8(v)
	}
}

// r8: 8-bit register by index, with H/L replaced by the index halves when m != vsHL.
func (s *VState) r8(i int, m vsIdx) uint8 {
	switch i {
	case 0:
		return s.B
	case 1:
		return s.C
	case 2:
		return s.D
	case 3:
		return s.E
	case 4:
		return uint8(s.hlx(m) >> 8)
	case 5:
		return uint8(s.hlx(m))
	case 7:
		return s.A
	}
	return 0
}
func (s *VState) setR8(i int, m vsIdx, v uint8) {
	switch i {
	case 0:
		s.B = v
	case 1:
		s.C = v
	case 2:
		s.D = v
	case 3:
		s.E = v
	case 4:
		s.setHLx(m, uint16(v)<<8|s.hlx(m)&0xff)
	case 5:
		s.setHLx(m, s.hlx(m)&0xff00|uint16(v))
	case 7:
		s.A = v
	}
}

// ea: address of the memory operand (HL) / (IX+d) / (IY+d); fetches d when indexed.
func (s *VState) ea(m vsIdx) uint16 {
	if m == vsHL {
		return s.hlx(vsHL)
	}
	d := s.fetch()
	return vsAddrOff(s.hlx(m), d)
}

func (s *VState) rp(p int, m vsIdx) uint16 {
	switch p {
	case 0:
		return uint16(s.B)<<8 | uint16(s.C)
	case 1:
		return uint16(s.D)<<8 | uint16(s.E)
	case 2:
		return s.hlx(m)
	}
	return s.SP
}
func (s *VState) setRP(p int, m vsIdx, v uint16) {
	switch p {
	case 0:
		s.B, s.C = uint8(v>>8), uint8(v)
	case 1:
		s.D, s.E = uint8(v>>8), uint8(v)
	case 2:
		s.setHLx(m, v)
	default:
		s.SP = v
	}
}
func (s *VState) rp2(p int, m vsIdx) uint16 {
	if p == 3 {
		return uint16(s.A)<<8 | uint16(s.F)
	}
	return s.rp(p, m)
}
func (s *VState) setRP2(p int, m vsIdx, v uint16) {
	if p == 3 {
		s.A, s.F = uint8(v>>8), uint8(v)
		return
	}
	s.setRP(p, m, v)
}

func vsCond(y int, f uint8) bool {
	switch y {
	case 0:
		return f&vsFZ == 0
	case 1:
		return f&vsFZ != 0
	case 2:
		return f&vsFC == 0
	case 3:
		return f&vsFC != 0
	case 4:
		return f&vsFPV == 0
	case 5:
		return f&vsFPV != 0
	case 6:
		return f&vsFS == 0
	}
	return f&vsFS != 0
}

// ---------------------------------------------------------------- ALU on the state

func (s *VState) alu(y int, v uint8) {
	c := s.F & vsFC
	var x VsRF
	switch y {
	case 0:
		x = vsAdd8(s.A, v, 0)
	case 1:
		x = vsAdd8(s.A, v, c)
	case 2:
		x = vsSub8(s.A, v, 0)
	case 3:
		x = vsSub8(s.A, v, c)
	case 4:
		x = vsAnd8(s.A, v)
	case 5:
		x = vsXor8(s.A, v)
	case 6:
		x = vsOr8(s.A, v)
	default:
		x = vsCp8(s.A, v)
		x.R = s.A
	}
	s.A = x.R
	s.setF(x.F, 0xff)
}

func (s *VState) inc8(v uint8) uint8 {
	x := vsInc8(v, s.F)
	s.setF(x.F, 0xff)
	return x.R
}
func (s *VState) dec8(v uint8) uint8 {
	x := vsDec8(v, s.F)
	s.setF(x.F, 0xff)
	return x.R
}
func (s *VState) rot(y int, v uint8) uint8 {
	x := vsRot(y, v, s.F)
	s.setF(x.F, 0xff)
	return x.R
}

// ---------------------------------------------------------------- decode

// vsImplementedIdx: second bytes after DD/FD that the emulator implements:
// the documented IX/IY set, the IXH/IXL/IYH/IYL forms and the DD/FD mirrors of
// the register-only opcodes in 0x40-0xBF (all of 0x40-0xBF except HALT).
func vsImplementedIdx(b uint8) bool {
	switch b {
	case 0x09, 0x19, 0x29, 0x39, 0x21, 0x22, 0x23, 0x24, 0x25, 0x26, 0x2a, 0x2b, 0x2c, 0x2d, 0x2e,
		0x34, 0x35, 0x36, 0xe1, 0xe3, 0xe5, 0xe9, 0xf9:
		return true
	}
	return b >= 0x40 && b <= 0xbf && b != 0x76
}

// Step executes one instruction (no interrupt handling).
func (s *VState) Step() {
	s.Care = 0xff
	s.RAlt = false
	s.Unimpl = false
	s.OpPC = s.PC
	op := s.m1()
	switch op {
	case 0xcb:
		s.execCB(s.m1(), vsHL, 0)
	case 0xed:
		s.execED(s.m1())
	case 0xdd, 0xfd:
		m := vsIX
		if op == 0xfd {
			m = vsIY
		}
		b := s.m1()
		if b == 0xcb {
			d := s.fetch()
			o := s.fetch()
			s.R = vsIncR(s.R)
			s.RAlt = true
			if o&7 == 6 {
				s.execCB(o, m, d)
			} else {
				s.Unimpl = true
			}
		} else if vsImplementedIdx(b) {
			s.execMain(b, m)
		} else {
			s.Unimpl = true
		}
	default:
		s.execMain(op, vsHL)
	}
}

func (s *VState) execCB(o uint8, m vsIdx, d uint8) {
	x, y, z := int(o>>6), int(o>>3&7), int(o&7)
	var v uint8
	var a uint16
	if z == 6 {
		if m == vsHL {
			a = s.hlx(vsHL)
		} else {
			a = vsAddrOff(s.hlx(m), d)
		}
		v = s.rd(a)
	} else {
		v = s.r8(z, vsHL)
	}
	switch x {
	case 0:
		v = s.rot(y, v)
	case 1:
		f := vsBitF(uint8(y), v, s.F)
		if z == 6 {
			// bits 3/5 come from an internal register; chips differ: not compared
			s.setF(f, 0xff&^(vsF5|vsF3))
		} else {
			s.setF(f|v&(vsF5|vsF3), 0xff)
		}
		return
	case 2:
		v &^= 1 << uint(y)
	case 3:
		v |= 1 << uint(y)
	}
	if z == 6 {
		s.wr(a, v)
	} else {
		s.setR8(z, vsHL, v)
	}
}

func (s *VState) execMain(op uint8, m vsIdx) {
	x, y, z := int(op>>6), int(op>>3&7), int(op&7)
	p, q := y>>1, y&1
	switch x {
	case 0:
		switch z {
		case 0:
			switch {
			case y == 0: // NOP
			case y == 1: // EX AF,AF'
				s.A, s.A2 = s.A2, s.A
				s.F, s.F2 = s.F2, s.F
			case y == 2: // DJNZ
				e := s.fetch()
				s.B--
				if s.B != 0 {
					s.PC = vsAddrOff(s.PC, e)
				}
			case y == 3: // JR
				e := s.fetch()
				s.PC = vsAddrOff(s.PC, e)
			default: // JR cc
				e := s.fetch()
				if vsCond(y-4, s.F) {
					s.PC = vsAddrOff(s.PC, e)
				}
			}
		case 1:
			if q == 0 {
				s.setRP(p, m, s.fetch16())
			} else {
				r := vsAdd16(s.hlx(m), s.rp(p, m), s.F)
				s.setHLx(m, r.R)
				s.setF(r.F, 0xff)
			}
		case 2:
			switch y {
			case 0:
				s.wr(s.rp(0, vsHL), s.A)
			case 2:
				s.wr(s.rp(1, vsHL), s.A)
			case 4:
				s.wr16(s.fetch16(), s.hlx(m))
			case 6:
				s.wr(s.fetch16(), s.A)
			case 1:
				s.A = s.rd(s.rp(0, vsHL))
			case 3:
				s.A = s.rd(s.rp(1, vsHL))
			case 5:
				s.setHLx(m, s.rd16(s.fetch16()))
			case 7:
				s.A = s.rd(s.fetch16())
			}
		case 3:
			if q == 0 {
				s.setRP(p, m, s.rp(p, m)+1)
			} else {
				s.setRP(p, m, s.rp(p, m)-1)
			}
		case 4, 5:
			if y == 6 {
				a := s.ea(m)
				v := s.rd(a)
				if z == 5 {
					v = s.dec8(v)
				} else {
					v = s.inc8(v)
				}
				s.wr(a, v)
			} else {
				v := s.r8(y, m)
				if z == 5 {
					v = s.dec8(v)
				} else {
					v = s.inc8(v)
				}
				s.setR8(y, m, v)
			}
		case 6:
			if y == 6 {
				a := s.ea(m)
				s.wr(a, s.fetch())
			} else {
				s.setR8(y, m, s.fetch())
			}
		case 7:
			c := s.F & vsFC
			keep := s.F & (vsFS | vsFZ | vsFPV)
			a := s.A
			switch y {
			case 0: // RLCA
				s.A = a<<1 | a>>7
				s.setF(keep|s.A&(vsF5|vsF3)|a>>7, 0xff)
			case 1: // RRCA
				s.A = a>>1 | a<<7
				s.setF(keep|s.A&(vsF5|vsF3)|a&1, 0xff)
			case 2: // RLA
				s.A = a<<1 | c
				s.setF(keep|s.A&(vsF5|vsF3)|a>>7, 0xff)
			case 3: // RRA
				s.A = a>>1 | c<<7
				s.setF(keep|s.A&(vsF5|vsF3)|a&1, 0xff)
			case 4: // DAA
				r := vsDaa(a, s.F)
				s.A = r.R
				s.setF(r.F, 0xff)
			case 5: // CPL
				s.A = ^a
				s.setF(s.F&(vsFS|vsFZ|vsFPV|vsFC)|vsFH|vsFN|s.A&(vsF5|vsF3), 0xff)
			case 6: // SCF: bits 3/5 differ between chips, not compared
				s.setF(keep|vsFC, 0xff&^(vsF5|vsF3))
			case 7: // CCF
				s.setF(keep|vsB2f(c != 0, vsFH)|vsB2f(c == 0, vsFC), 0xff&^(vsF5|vsF3))
			}
		}
	case 1:
		switch {
		case y == 6 && z == 6: // HALT: PC stays on the opcode
			s.PC = s.OpPC
			s.HALT = true
		case y == 6:
			s.wr(s.ea(m), s.r8(z, vsHL))
		case z == 6:
			s.setR8(y, vsHL, s.rd(s.ea(m)))
		default:
			s.setR8(y, m, s.r8(z, m))
		}
	case 2:
		if z == 6 {
			s.alu(y, s.rd(s.ea(m)))
		} else {
			s.alu(y, s.r8(z, m))
		}
	case 3:
		switch z {
		case 0:
			if vsCond(y, s.F) {
				s.PC = s.pop()
			}
		case 1:
			if q == 0 {
				s.setRP2(p, m, s.pop())
			} else {
				switch p {
				case 0:
					s.PC = s.pop()
				case 1:
					s.B, s.B2 = s.B2, s.B
					s.C, s.C2 = s.C2, s.C
					s.D, s.D2 = s.D2, s.D
					s.E, s.E2 = s.E2, s.E
					s.H, s.H2 = s.H2, s.H
					s.L, s.L2 = s.L2, s.L
				case 2:
					s.PC = s.hlx(m)
				case 3:
					s.SP = s.hlx(m)
				}
			}
		case 2:
			nn := s.fetch16()
			if vsCond(y, s.F) {
				s.PC = nn
			}
		case 3:
			switch y {
			case 0:
				s.PC = s.fetch16()
			case 2:
				n := s.fetch()
				s.pout(n, s.A)
			case 3:
				n := s.fetch()
				s.A = s.pin(n)
			case 4:
				v := s.rd16(s.SP)
				s.wr16(s.SP, s.hlx(m))
				s.setHLx(m, v)
			case 5:
				s.D, s.H = s.H, s.D
				s.E, s.L = s.L, s.E
			case 6:
				s.IFF1, s.IFF2 = false, false
			case 7:
				s.IFF1, s.IFF2 = true, true
			}
		case 4:
			nn := s.fetch16()
			if vsCond(y, s.F) {
				s.push(s.PC)
				s.PC = nn
			}
		case 5:
			if q == 0 {
				s.push(s.rp2(p, m))
			} else {
				nn := s.fetch16()
				s.push(s.PC)
				s.PC = nn
			}
		case 6:
			s.alu(y, s.fetch())
		case 7:
			s.push(s.PC)
			s.PC = uint16(y) * 8
		}
	}
}

func (s *VState) execED(o uint8) {
	x, y, z := int(o>>6), int(o>>3&7), int(o&7)
	p, q := y>>1, y&1
	hl := s.hlx(vsHL)
	bc := s.rp(0, vsHL)
	switch {
	case x == 1 && z == 0 && y != 6: // IN r,(C)
		v := s.pin(s.C)
		s.setR8(y, vsHL, v)
		s.setF(s.F&vsFC|vsSZ53(v)|vsB2f(vsParity(v), vsFPV), 0xff)
	case x == 1 && z == 1 && y != 6: // OUT (C),r
		s.pout(s.C, s.r8(y, vsHL))
	case x == 1 && z == 2:
		var r VsRF16
		if q == 0 {
			r = vsSbc16(hl, s.rp(p, vsHL), s.F)
		} else {
			r = vsAdc16(hl, s.rp(p, vsHL), s.F)
		}
		s.setHLx(vsHL, r.R)
		s.setF(r.F, 0xff)
	case x == 1 && z == 3:
		nn := s.fetch16()
		if q == 0 {
			s.wr16(nn, s.rp(p, vsHL))
		} else {
			s.setRP(p, vsHL, s.rd16(nn))
		}
	case o == 0x44: // NEG
		r := vsSub8(0, s.A, 0)
		s.A = r.R
		s.setF(r.F, 0xff)
	case o == 0x45: // RETN
		if s.HasRetn {
			s.G.Retn++
		}
		s.PC = s.pop()
		s.IFF1 = s.IFF2
	case o == 0x4d: // RETI
		if s.HasReti {
			s.G.Reti++
		}
		s.PC = s.pop()
	case o == 0x46:
		s.IM = 0
	case o == 0x56:
		s.IM = 1
	case o == 0x5e:
		s.IM = 2
	case o == 0x47:
		s.I = s.A
	case o == 0x4f:
		s.R = s.A
	case o == 0x57, o == 0x5f: // LD A,I / LD A,R
		v := s.I
		if o == 0x5f {
			v = s.R
		}
		s.A = v
		s.setF(s.F&vsFC|vsSZ53(v)|vsB2f(s.IFF2, vsFPV), 0xff)
	case o == 0x67: // RRD
		m := s.rd(hl)
		s.wr(hl, s.A<<4|m>>4)
		s.A = s.A&0xf0 | m&0x0f
		s.setF(s.F&vsFC|vsSZ53(s.A)|vsB2f(vsParity(s.A), vsFPV), 0xff)
	case o == 0x6f: // RLD
		m := s.rd(hl)
		s.wr(hl, m<<4|s.A&0x0f)
		s.A = s.A&0xf0 | m>>4
		s.setF(s.F&vsFC|vsSZ53(s.A)|vsB2f(vsParity(s.A), vsFPV), 0xff)
	case x == 2 && z <= 3 && y >= 4: // block instructions
		dir := uint16(1)
		if y&1 == 1 {
			dir = 0xffff
		}
		rep := y >= 6
		switch z {
		case 0: // LDI LDD LDIR LDDR
			v := s.rd(hl)
			de := s.rp(1, vsHL)
			s.wr(de, v)
			s.setRP(1, vsHL, de+dir)
			s.setHLx(vsHL, hl+dir)
			bc--
			s.setRP(0, vsHL, bc)
			n := v + s.A
			s.setF(s.F&(vsFS|vsFZ|vsFC)|vsB2f(bc != 0, vsFPV)|n&vsF3|vsB2f(n&2 != 0, vsF5), 0xff)
			if rep && bc != 0 {
				s.PC = s.OpPC
			}
		case 1: // CPI CPD CPIR CPDR
			v := s.rd(hl)
			r := vsSub8(s.A, v, 0)
			s.setHLx(vsHL, hl+dir)
			bc--
			s.setRP(0, vsHL, bc)
			n := r.R - vsB2f(r.F&vsFH != 0, 1)
			s.setF(s.F&vsFC|r.F&(vsFS|vsFZ|vsFH)|vsFN|vsB2f(bc != 0, vsFPV)|n&vsF3|vsB2f(n&2 != 0, vsF5), 0xff)
			if rep && bc != 0 && r.R != 0 {
				s.PC = s.OpPC
			}
		case 2: // INI IND INIR INDR: port C; documented flags Z, N (C unchanged)
			v := s.pin(s.C)
			s.wr(hl, v)
			s.B--
			s.setHLx(vsHL, hl+dir)
			s.setF(s.F&^(vsFZ)|vsFN|vsB2f(s.B == 0, vsFZ), vsFZ|vsFN|vsFC)
			if rep && s.B != 0 {
				s.PC = s.OpPC
			}
		case 3: // OUTI OUTD OTIR OTDR
			v := s.rd(hl)
			s.pout(s.C, v)
			s.B--
			s.setHLx(vsHL, hl+dir)
			s.setF(s.F&^(vsFZ)|vsFN|vsB2f(s.B == 0, vsFZ), vsFZ|vsFN|vsFC)
			if rep && s.B != 0 {
				s.PC = s.OpPC
			}
		}
	default:
		s.Unimpl = true
	}
}
