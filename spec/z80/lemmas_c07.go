package z80

// C07: transparency of an interrupt at an instruction boundary, in the local
// form the statement itself offers ("the return address pushed on acceptance
// is the address of the first instruction that has not yet executed", and the
// handler's EI; RETI / RETN brings everything back).  The step from these
// lemmas to whole program runs is induction over the trace (not machine-checked).

func vsNotIn3(a, h uint16) bool { return a != h && a != h+1 && a != h+2 }

// T1: acceptance of NMI (kcase 0), mode 1 (1), mode 2 (2) pushes exactly the
// boundary PC (high byte at SP-1, low byte at SP-2), lowers SP by 2, writes
// nothing else and leaves every register other than PC, SP, IFF1, IFF2 alone.
const vsLemma_C07_AcceptPushesBoundaryPC_N = 3

func vsLemma_C07_AcceptPushesBoundaryPC(kcase int, s VState, d []uint8) bool {
	if !vsPlain(&s) {
		return true
	}
	typ := 1
	switch kcase {
	case 0:
		typ = 0
	case 1:
		if !s.IFF1 || s.IM != 1 {
			return true
		}
	default:
		if !s.IFF1 || s.IM != 2 || len(d) == 0 {
			return true
		}
	}
	t := s
	acc := t.stepInt(typ, d, true)
	want := s.G.Mem
	want[s.SP-2] = uint8(s.PC)
	want[s.SP-1] = uint8(s.PC >> 8)
	u := t
	u.IFF1, u.IFF2 = s.IFF1, s.IFF2
	return acc && !t.Open && t.SP == s.SP-2 && t.G.Mem == want && vsSameRegs(&u, &s) && t.R == s.R
}

// T3a: maskable request in mode 1 or 2, handler = EI; RETI: three Steps bring
// back PC, SP and every register, with IFF1 = IFF2 = 1, memory equal outside
// the two stack bytes.  Hypothesis: the stack bytes do not overwrite the
// handler's code (nor, in mode 2, the vector).
const vsLemma_C07_MaskableRoundTrip_N = 2

func vsLemma_C07_MaskableRoundTrip(kcase int, s VState, d []uint8) bool {
	if !vsPlain(&s) || !s.IFF1 {
		return true
	}
	var h uint16
	if kcase == 0 {
		if s.IM != 1 {
			return true
		}
		h = 0x0038
	} else {
		if s.IM != 2 || len(d) == 0 {
			return true
		}
		vec := uint16(s.I)<<8 | uint16(d[0]&0xfe)
		if s.SP-1 == vec || s.SP-1 == vec+1 || s.SP-2 == vec || s.SP-2 == vec+1 {
			return true
		}
		h = uint16(s.G.Mem[vec+1])<<8 | uint16(s.G.Mem[vec])
	}
	if s.G.Mem[h] != 0xfb || s.G.Mem[h+1] != 0xed || s.G.Mem[h+2] != 0x4d {
		return true
	}
	if !vsNotIn3(s.SP-1, h) || !vsNotIn3(s.SP-2, h) {
		return true
	}
	t := s
	if !t.stepInt(1, d, true) || t.PC != h || t.IFF1 || t.IFF2 {
		return false
	}
	t.Step() // EI
	t.Step() // RETI
	want := t.G.Mem
	want[s.SP-1], want[s.SP-2] = s.G.Mem[s.SP-1], s.G.Mem[s.SP-2]
	u := t
	u.IFF2 = s.IFF2
	return t.PC == s.PC && t.SP == s.SP && t.IFF1 && t.IFF2 && vsSameRegs(&u, &s) && want == s.G.Mem
}

// T3b: NMI with handler RETN at 0x0066: two Steps restore PC, SP, registers and
// IFF1 (IFF2 then holds the old IFF1, as on silicon).
func vsLemma_C07_NMIRoundTrip(s VState) bool {
	if !vsPlain(&s) {
		return true
	}
	h := uint16(0x0066)
	if s.G.Mem[h] != 0xed || s.G.Mem[h+1] != 0x45 {
		return true
	}
	if s.SP-1 == h || s.SP-1 == h+1 || s.SP-2 == h || s.SP-2 == h+1 {
		return true
	}
	t := s
	if !t.stepInt(0, nil, true) || t.PC != h || t.IFF1 || t.IFF2 != s.IFF1 {
		return false
	}
	t.Step() // RETN
	want := t.G.Mem
	want[s.SP-1], want[s.SP-2] = s.G.Mem[s.SP-1], s.G.Mem[s.SP-2]
	u := t
	u.IFF2 = s.IFF2
	return t.PC == s.PC && t.SP == s.SP && t.IFF1 == s.IFF1 && t.IFF2 == s.IFF1 && vsSameRegs(&u, &s) && want == s.G.Mem
}

// T4: a maskable request raised while interrupts are disabled is refused
// (nothing but the program's own instruction happens, the request stays
// pending) and is accepted at the first boundary after the program's EI.
func vsLemma_C07_PendingUntilEI(s VState, d []uint8) bool {
	if !vsPlain(&s) || s.IFF1 || s.G.Mem[s.PC] != 0xfb || s.IM != 1 {
		return true
	}
	t := s
	acc1 := t.stepInt(1, d, true)
	u := s
	u.Step()
	same := t.PC == u.PC && t.SP == u.SP && vsSameRegs(&t, &u) && t.G.Mem == u.G.Mem
	if acc1 || !same || !t.IFF1 {
		return false
	}
	pc := t.PC
	acc2 := t.stepInt(1, d, true)
	return acc2 && t.PC == 0x0038 && t.G.Mem[s.SP-2] == uint8(pc) && t.G.Mem[s.SP-1] == uint8(pc>>8)
}
