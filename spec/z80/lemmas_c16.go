package z80

// C16: exported flag constants are the Z80 bit positions (and agree with the
// internal masks the ALU uses); SetU16 followed by U16 is the identity.

func vsLemma_C16_FlagConstants() bool {
	return FlagC == 0x01 && FlagN == 0x02 && FlagPV == 0x04 && Flag3 == 0x08 &&
		FlagH == 0x10 && Flag5 == 0x20 && FlagZ == 0x40 && FlagS == 0x80 &&
		maskC == 0x01 && maskN == 0x02 && maskPV == 0x04 && mask3 == 0x08 &&
		maskH == 0x10 && mask5 == 0x20 && maskZ == 0x40 && maskS == 0x80
}

// Calls the real accessors; with their contracts discharged the proof uses
// the two contracts only (modular call rule).
func vsLemma_C16_U16RoundTrip(v uint16, r0 Register) bool {
	r := r0
	r.SetU16(v)
	return r.U16() == v && r.Hi == uint8(v>>8) && r.Lo == uint8(v)
}

// Set then Get / Reset then Get, for every mask, F and A; A is never touched.
func vsLemma_C16_SetResetGet(f Flag, g0 GPR) bool {
	g := g0
	g.SetFlag(f)
	set := (f == 0 || g.GetFlag(f)) && g.AF.Hi == g0.AF.Hi && g.AF.Lo&^uint8(f) == g0.AF.Lo&^uint8(f) && g.AF.Lo&uint8(f) == uint8(f)
	g.ResetFlag(f)
	return set && !g.GetFlag(f) && g.AF.Hi == g0.AF.Hi && g.AF.Lo == g0.AF.Lo&^uint8(f) &&
		g.BC == g0.BC && g.DE == g0.DE && g.HL == g0.HL
}
