package z80

import "github.com/koron-go/z80/internal/tinycpm"

// C18: the bundled minimal CP/M, at machine-code level.  The BIOS bytes are
// taken from the real tinycpm.NewMemory() (executed symbolically, so a change
// of the initialisers changes these lemmas); the machine is the reference
// Step, to which the real CPU is tied by the contracts of executeOne/Step.
// Every lemma is about a basic block of BIOS code (constant PC at every Step).
// User memory is arbitrary outside the BIOS pages.

// vsBiosLoaded: memory holds the BIOS bytes of tinycpm.NewMemory() at their addresses.
func vsBiosLoaded(s *VState) bool {
	m := tinycpm.NewMemory()
	return s.G.Mem[0x0000] == m.Get(0x0000) &&
		s.G.Mem[0x0001] == m.Get(0x0001) &&
		s.G.Mem[0x0002] == m.Get(0x0002) &&
		s.G.Mem[0x0003] == m.Get(0x0003) &&
		s.G.Mem[0x0004] == m.Get(0x0004) &&
		s.G.Mem[0x0005] == m.Get(0x0005) &&
		s.G.Mem[0x0006] == m.Get(0x0006) &&
		s.G.Mem[0x0007] == m.Get(0x0007) &&
		s.G.Mem[0xfe06] == m.Get(0xfe06) &&
		s.G.Mem[0xfe07] == m.Get(0xfe07) &&
		s.G.Mem[0xfe08] == m.Get(0xfe08) &&
		s.G.Mem[0xfe09] == m.Get(0xfe09) &&
		s.G.Mem[0xfe0a] == m.Get(0xfe0a) &&
		s.G.Mem[0xfe0b] == m.Get(0xfe0b) &&
		s.G.Mem[0xfe0c] == m.Get(0xfe0c) &&
		s.G.Mem[0xfe0d] == m.Get(0xfe0d) &&
		s.G.Mem[0xfe0e] == m.Get(0xfe0e) &&
		s.G.Mem[0xfe0f] == m.Get(0xfe0f) &&
		s.G.Mem[0xfe10] == m.Get(0xfe10) &&
		s.G.Mem[0xfe11] == m.Get(0xfe11) &&
		s.G.Mem[0xfe12] == m.Get(0xfe12) &&
		s.G.Mem[0xfe13] == m.Get(0xfe13) &&
		s.G.Mem[0xfe14] == m.Get(0xfe14) &&
		s.G.Mem[0xfe15] == m.Get(0xfe15) &&
		s.G.Mem[0xfe16] == m.Get(0xfe16) &&
		s.G.Mem[0xfe17] == m.Get(0xfe17) &&
		s.G.Mem[0xfe18] == m.Get(0xfe18) &&
		s.G.Mem[0xfe19] == m.Get(0xfe19) &&
		s.G.Mem[0xfe1a] == m.Get(0xfe1a) &&
		s.G.Mem[0xfe1b] == m.Get(0xfe1b) &&
		s.G.Mem[0xfe1c] == m.Get(0xfe1c) &&
		s.G.Mem[0xff03] == m.Get(0xff03)
}

// everything but PC/SP/A/F and the output bag is unchanged
func vsBdosFrame(t, s *VState) bool {
	return t.B == s.B && t.C == s.C && t.D == s.D && t.E == s.E && t.H == s.H && t.L == s.L && t.IX == s.IX && t.IY == s.IY &&
		t.G.Mem == s.G.Mem && t.G.Wr == s.G.Wr && t.G.PIn == s.G.PIn && t.IFF1 == s.IFF1 && t.IFF2 == s.IFF2 && t.IM == s.IM
}

func vsOutOnce(t, s *VState, v uint8) bool {
	want := s.G.POut
	want[uint16(v)]++ // port 0, value v
	return t.G.POut == want
}

// CALL 5 with C = 2 (entered at PC = 5 with the return address on the stack):
// seven Steps write exactly the byte in E to port 0 and return to the caller
// with SP restored; memory (hence the caller's code) is untouched.
func vsLemma_C18_Bdos2(s VState) bool {
	if !vsPlain(&s) || s.HALT || s.NoIO || s.PC != 0x0005 || s.C != 2 || !vsBiosLoaded(&s) {
		return true
	}
	ret := uint16(s.G.Mem[s.SP+1])<<8 | uint16(s.G.Mem[s.SP])
	t := s
	t.Step() // JP FE06
	t.Step() // LD A,C
	t.Step() // CP 2
	t.Step() // JR Z,putchar
	t.Step() // LD A,E
	t.Step() // OUT (0),A
	t.Step() // RET
	return t.PC == ret && t.SP == s.SP+2 && !t.HALT && vsOutOnce(&t, &s, s.E) && vsBdosFrame(&t, &s)
}

// CALL 5 with C = 9: six Steps reach the print loop at FE14 with DE, the stack
// and memory untouched and nothing written yet.
func vsLemma_C18_Bdos9Entry(s VState) bool {
	if !vsPlain(&s) || s.HALT || s.NoIO || s.PC != 0x0005 || s.C != 9 || !vsBiosLoaded(&s) {
		return true
	}
	t := s
	t.Step() // JP FE06
	t.Step() // LD A,C
	t.Step() // CP 2
	t.Step() // JR Z,putchar (not taken)
	t.Step() // CP 9
	t.Step() // JR Z,putstr
	return t.PC == 0xfe14 && t.SP == s.SP && !t.HALT && t.G.POut == s.G.POut && vsBdosFrame(&t, &s)
}

// One iteration of the print loop at FE14 on a byte other than '$': five Steps
// write exactly that byte to port 0, advance DE by one (mod 65536) and are
// back at FE14.
func vsLemma_C18_Bdos9Iteration(s VState) bool {
	de := uint16(s.D)<<8 | uint16(s.E)
	if !vsPlain(&s) || s.HALT || s.NoIO || s.PC != 0xfe14 || !vsBiosLoaded(&s) || s.G.Mem[de] == '$' {
		return true
	}
	t := s
	t.Step() // LD A,(DE)
	t.Step() // CP '$'
	t.Step() // RET Z (not taken)
	t.Step() // OUT (0),A
	t.Step() // INC DE
	t.Step() // JR putstr
	u := t
	u.D, u.E = s.D, s.E
	return t.PC == 0xfe14 && t.SP == s.SP && !t.HALT && uint16(t.D)<<8|uint16(t.E) == de+1 && vsOutOnce(&t, &s, s.G.Mem[de]) && vsBdosFrame(&u, &s)
}

// The loop ends on the first '$': three Steps return to the caller, nothing is written.
func vsLemma_C18_Bdos9Exit(s VState) bool {
	de := uint16(s.D)<<8 | uint16(s.E)
	if !vsPlain(&s) || s.HALT || s.NoIO || s.PC != 0xfe14 || !vsBiosLoaded(&s) || s.G.Mem[de] != '$' {
		return true
	}
	ret := uint16(s.G.Mem[s.SP+1])<<8 | uint16(s.G.Mem[s.SP])
	t := s
	t.Step() // LD A,(DE)
	t.Step() // CP '$'
	t.Step() // RET Z
	return t.PC == ret && t.SP == s.SP+2 && !t.HALT && t.G.POut == s.G.POut && vsBdosFrame(&t, &s)
}

// Unsupported function numbers halt at FE0F without output.
func vsLemma_C18_BdosOther(s VState) bool {
	if !vsPlain(&s) || s.PC != 0x0005 || s.C == 2 || s.C == 9 || !vsBiosLoaded(&s) {
		return true
	}
	t := s
	t.Step() // JP FE06
	t.Step() // LD A,C
	t.Step() // CP 2
	t.Step() // JR Z (not taken)
	t.Step() // CP 9
	t.Step() // JR Z (not taken)
	t.Step() // HALT
	return t.PC == 0xfe0f && t.HALT && t.SP == s.SP && t.G.POut == s.G.POut && vsBdosFrame(&t, &s)
}

// A jump to address 0 ends the run halted at FF03 (with Run's contract: Run returns nil there).
func vsLemma_C18_WarmBoot(s VState) bool {
	if !vsPlain(&s) || s.PC != 0x0000 || !vsBiosLoaded(&s) {
		return true
	}
	t := s
	t.Step() // JP FF03
	t.Step() // HALT
	return t.PC == 0xff03 && t.HALT && t.SP == s.SP && t.G.POut == s.G.POut && vsBdosFrame(&t, &s)
}
