package tinycpm

// Ghost state and helpers for the contracts of package tinycpm (C18).

// VGhost: the console stream (bytes that reached the configured writer, in
// order) and the number of warnings logged.
type VGhost struct {
	Con   [65536]uint8 // console bytes (ring of 64 Ki; ConN counts modulo 2^16)
	ConN  uint16
	Warns uint8
}

func vsStoreBuf(a [65536]uint8, i uint16, v uint8) [65536]uint8 { a[i] = v; return a }

func vsB2u8(c bool) uint8 {
	if c {
		return 1
	}
	return 0
}

func vsConAfter(con [65536]uint8, n uint16, write bool, v uint8) [65536]uint8 {
	if write {
		con[n] = v
	}
	return con
}
