package zex

// C17: the Go exerciser tables are exactly the canonical zexdoc/zexall cases.
// Lemmas over the package-level tables as established by package
// initialisation (executed symbolically from the real table sources), going
// through the real Status.Bytes(), compared with the records located through
// the test-pointer table at 0x013A of the images.  The images are read from
// cmd/zexdoc/*.cim on every run (string constants vsZexdocCim / vsZexallCim,
// generated) and their SHA-256 must equal the pinned digests below.
// (Comparisons are unrolled: spec code is loop-free.)

const vsDigestZexdoc = "b3015112a99bb72273e0cacde7c7549eb9840ba996af76f7bf7992ef7d6e2f90" // pinned from the pristine tree
const vsDigestZexall = "fbb1bb5d46f61c33ea6841a71f2b23c49b9b62410ce6ed4e57b7d9b2e7b437e0" // pinned from the pristine tree

const vsPtrTable = 0x013A - 0x0100 // file offset of the test-pointer table (images load at 0x0100)
const vsNumCases = 67

func vsEq20(img string, off int, b []byte) bool {
	return len(b) == 20 && img[off+0] == b[0] &&
		img[off+1] == b[1] &&
		img[off+2] == b[2] &&
		img[off+3] == b[3] &&
		img[off+4] == b[4] &&
		img[off+5] == b[5] &&
		img[off+6] == b[6] &&
		img[off+7] == b[7] &&
		img[off+8] == b[8] &&
		img[off+9] == b[9] &&
		img[off+10] == b[10] &&
		img[off+11] == b[11] &&
		img[off+12] == b[12] &&
		img[off+13] == b[13] &&
		img[off+14] == b[14] &&
		img[off+15] == b[15] &&
		img[off+16] == b[16] &&
		img[off+17] == b[17] &&
		img[off+18] == b[18] &&
		img[off+19] == b[19]
}

func vsDescByte(desc string, i int) byte {
	if i < len(desc) {
		return desc[i]
	}
	return '.'
}

// vsRecordMatches: record k of the image equals case k of the table, byte for byte.
func vsRecordMatches(img string, cases []Case, k int) bool {
	if len(cases) != vsNumCases || k >= len(cases) {
		return false
	}
	p := int(img[vsPtrTable+2*k]) | int(img[vsPtrTable+2*k+1])<<8
	if p < 0x0100 || p-0x0100+96 > len(img) {
		return false
	}
	off := p - 0x0100
	c := cases[k]
	if len(c.Desc) > 30 {
		return false
	}
	crc := uint32(img[off+61])<<24 | uint32(img[off+62])<<16 | uint32(img[off+63])<<8 | uint32(img[off+64])
	return img[off] == c.FlagMask &&
		vsEq20(img, off+1, c.BaseCase.Bytes()) && vsEq20(img, off+21, c.IncVec.Bytes()) && vsEq20(img, off+41, c.ShiftVec.Bytes()) &&
		crc == uint32(c.Expect) &&
		img[off+65+0] == vsDescByte(c.Desc, 0) &&
		img[off+65+1] == vsDescByte(c.Desc, 1) &&
		img[off+65+2] == vsDescByte(c.Desc, 2) &&
		img[off+65+3] == vsDescByte(c.Desc, 3) &&
		img[off+65+4] == vsDescByte(c.Desc, 4) &&
		img[off+65+5] == vsDescByte(c.Desc, 5) &&
		img[off+65+6] == vsDescByte(c.Desc, 6) &&
		img[off+65+7] == vsDescByte(c.Desc, 7) &&
		img[off+65+8] == vsDescByte(c.Desc, 8) &&
		img[off+65+9] == vsDescByte(c.Desc, 9) &&
		img[off+65+10] == vsDescByte(c.Desc, 10) &&
		img[off+65+11] == vsDescByte(c.Desc, 11) &&
		img[off+65+12] == vsDescByte(c.Desc, 12) &&
		img[off+65+13] == vsDescByte(c.Desc, 13) &&
		img[off+65+14] == vsDescByte(c.Desc, 14) &&
		img[off+65+15] == vsDescByte(c.Desc, 15) &&
		img[off+65+16] == vsDescByte(c.Desc, 16) &&
		img[off+65+17] == vsDescByte(c.Desc, 17) &&
		img[off+65+18] == vsDescByte(c.Desc, 18) &&
		img[off+65+19] == vsDescByte(c.Desc, 19) &&
		img[off+65+20] == vsDescByte(c.Desc, 20) &&
		img[off+65+21] == vsDescByte(c.Desc, 21) &&
		img[off+65+22] == vsDescByte(c.Desc, 22) &&
		img[off+65+23] == vsDescByte(c.Desc, 23) &&
		img[off+65+24] == vsDescByte(c.Desc, 24) &&
		img[off+65+25] == vsDescByte(c.Desc, 25) &&
		img[off+65+26] == vsDescByte(c.Desc, 26) &&
		img[off+65+27] == vsDescByte(c.Desc, 27) &&
		img[off+65+28] == vsDescByte(c.Desc, 28) &&
		img[off+65+29] == vsDescByte(c.Desc, 29) &&
		img[off+95] == '$'
}

const vsLemma_C17_DocRecord_N = vsNumCases

func vsLemma_C17_DocRecord(kcase int) bool { return vsRecordMatches(vsZexdocCim, DocCases, kcase) }

const vsLemma_C17_AllRecord_N = vsNumCases

func vsLemma_C17_AllRecord(kcase int) bool { return vsRecordMatches(vsZexallCim, AllCases, kcase) }

// no case is missing: the pointer tables end after exactly 67 entries
func vsLemma_C17_TablesComplete() bool {
	end := vsPtrTable + 2*vsNumCases
	return len(DocCases) == vsNumCases && len(AllCases) == vsNumCases &&
		vsZexdocCim[end] == 0 && vsZexdocCim[end+1] == 0 && vsZexallCim[end] == 0 && vsZexallCim[end+1] == 0
}
