package main

// Ghost state and container specification for cim2bin (C19).

// VGhost: the input image as os.ReadFile returned it, the output file as the
// list of chunks written through the buffered writer (in order; content
// snapshotted at the time of the write), and whether any OS / I/O call failed.
type VGhost struct {
	In       []uint8
	NC       int
	C0, C1   []uint8
	C2, C3   []uint8
	C4, C5   []uint8
	C6, C7   []uint8
	C8, C9   []uint8
	OSFailed bool
	Trunc    bool // the output file was created empty (os.Create, or os.OpenFile with O_TRUNC)
}

func vsForallIdx(f func(i int) bool) bool {
	for i := 0; i < 1<<17; i++ {
		if !f(i) {
			return false
		}
	}
	return true
}

func vsIsByte(c []uint8, v uint8) bool { return len(c) == 1 && c[0] == v }
func vsIsU16(c []uint8, v uint16) bool {
	return len(c) == 2 && c[0] == uint8(v) && c[1] == uint8(v>>8)
}
func vsSame(c, in []uint8) bool {
	return len(c) == len(in) && vsForallIdx(func(i int) bool { return i < 0 || i >= len(in) || c[i] == in[i] })
}

// vsFits: the end address of the image fits in 16 bits.
func vsFits(in []uint8, off uint) bool {
	return len(in) >= 1 && off <= 0xffff && off+uint(len(in))-1 <= 0xffff
}

// vsBinContainer: 0xFE, start, end = start+length-1, exec = start, image.
func vsBinContainer(g *VGhost, off uint16) bool {
	return g.Trunc && g.NC == 5 && vsIsByte(g.C0, 0xfe) && vsIsU16(g.C1, off) && vsIsU16(g.C2, off+uint16(len(g.In))-1) &&
		vsIsU16(g.C3, off) && vsSame(g.C4, g.In)
}
