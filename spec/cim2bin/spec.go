package main

// Ghost state and container specification for cim2bin (C19).

// VGhost: the input image as os.ReadFile returned it, the output file as the
// list of chunks written through the buffered writer (in order; content
// snapshotted at the time of the write), and whether any OS / I/O call failed.
type VGhost struct {
	In       []uint8
	NC       int
	C0, C1   []uint8
	C2, C3   []uint8
	C4, C5   []uint8
	C6, C7   []uint8
	C8, C9   []uint8
	OSFailed bool
	Trunc    bool // the output file was created empty (os.Create, or os.OpenFile with O_TRUNC)
}

func vsForallIdx(f func(i int) bool) bool {
	for i := 0; i < 1<<17; i++ {
		if !f(i) {
			return false
		}
	}
	return true
}

func vsIsByte(c []uint8, v uint8) bool { return len(c) == 1 && c[0] == v }
func vsIsU16(c []uint8, v uint16) bool {
	return len(c) == 2 && c[0] == uint8(v) && c[1] == uint8(v>>8)
}
func vsSame(c, in []uint8) bool {
	return len(c) == len(in) && vsForallIdx(func(i int) bool { return i < 0 || i >= len(in) || c[i] == in[i] })
}

// vsFits: the end address of the image fits in 16 bits.
func vsFits(in []uint8, off uint) bool {
	return len(in) >= 1 && off <= 0xffff && off+uint(len(in))-1 <= 0xffff
}

// vsBinContainer: 0xFE, start, end = start+length-1, exec = start, image.
func vsBinContainer(g *VGhost, off uint16) bool {
	return g.Trunc && vsStreamLen(g) == 7+len(g.In) && vsStreamAt(g, 0) == 0xfe &&
		vsU16At(g, 1, off) && vsU16At(g, 3, off+uint16(len(g.In))-1) && vsU16At(g, 5, off) && vsBodyAt(g, 7)
}

// The output file is the concatenation of the chunks, whatever their number
// and sizes (how the program batches its writes is not part of the format).
func vsStreamLen(g *VGhost) int {
	n := 0
	if g.NC > 0 {
		n += len(g.C0)
	}
	if g.NC > 1 {
		n += len(g.C1)
	}
	if g.NC > 2 {
		n += len(g.C2)
	}
	if g.NC > 3 {
		n += len(g.C3)
	}
	if g.NC > 4 {
		n += len(g.C4)
	}
	if g.NC > 5 {
		n += len(g.C5)
	}
	if g.NC > 6 {
		n += len(g.C6)
	}
	if g.NC > 7 {
		n += len(g.C7)
	}
	if g.NC > 8 {
		n += len(g.C8)
	}
	if g.NC > 9 {
		n += len(g.C9)
	}
	return n
}

// vsStreamAt: byte i of the output file (0 outside).
func vsStreamAt(g *VGhost, i int) uint8 {
	if i < 0 {
		return 0
	}
	if g.NC > 0 {
		if i < len(g.C0) {
			return g.C0[i]
		}
		i -= len(g.C0)
	}
	if g.NC > 1 {
		if i < len(g.C1) {
			return g.C1[i]
		}
		i -= len(g.C1)
	}
	if g.NC > 2 {
		if i < len(g.C2) {
			return g.C2[i]
		}
		i -= len(g.C2)
	}
	if g.NC > 3 {
		if i < len(g.C3) {
			return g.C3[i]
		}
		i -= len(g.C3)
	}
	if g.NC > 4 {
		if i < len(g.C4) {
			return g.C4[i]
		}
		i -= len(g.C4)
	}
	if g.NC > 5 {
		if i < len(g.C5) {
			return g.C5[i]
		}
		i -= len(g.C5)
	}
	if g.NC > 6 {
		if i < len(g.C6) {
			return g.C6[i]
		}
		i -= len(g.C6)
	}
	if g.NC > 7 {
		if i < len(g.C7) {
			return g.C7[i]
		}
		i -= len(g.C7)
	}
	if g.NC > 8 {
		if i < len(g.C8) {
			return g.C8[i]
		}
		i -= len(g.C8)
	}
	if g.NC > 9 {
		if i < len(g.C9) {
			return g.C9[i]
		}
	}
	return 0
}

func vsU16At(g *VGhost, i int, v uint16) bool {
	return vsStreamAt(g, i) == uint8(v) && vsStreamAt(g, i+1) == uint8(v>>8)
}

// vsBodyAt: the image follows the hdr header bytes, unmodified.
func vsBodyAt(g *VGhost, hdr int) bool {
	return vsForallIdx(func(i int) bool { return i < 0 || i >= len(g.In) || vsStreamAt(g, hdr+i) == g.In[i] })
}
