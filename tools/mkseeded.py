#!/usr/bin/env python3
"""mkseeded.py <log of selftest/run_seeded.sh> : writes selftest/SEEDED_RESULTS.md"""
import json, glob, re, sys
res = {}
for l in open(sys.argv[1]).read().splitlines():
    m = re.match(r'(\S+) \[(C\d+)\]: (\S+)(.*)', l)
    if m:
        res.setdefault(m.group(1), []).append((m.group(2), m.group(3), m.group(4).strip()))
out = ['# Seeded changes and which check catches which', '',
 'Each change was written by an independent sub-agent that saw only the property text and a scratch worktree',
 '(nothing from /verif).  Every one was confirmed here (`selftest/verify_seed.sh`): it applies, builds, the unedited',
 'suite passes, and its demonstration test fails with / passes without the change.  `selftest/run_seeded.sh` applies',
 'each to a scratch copy of the working tree and runs the quick check of the property it breaks.', '',
 'DETECTED = the check exits 1 with VIOLATION lines ("replayed" = reproduced on the real code by the generated test;',
 'the rest end in no-failing-input-found: loop-invariant, structural and OS-level obligations have no replay harness).',
 'BROKEN = exit 2, undecided: the change uses a construct outside the verified subset in an obligation the property owns,',
 'needs a loop invariant (bounded unrolling found no counterexample that replays), or no solver decided the changed',
 'obligation within the limits (never reported as a pass, never as a violation).', '',
 '| change | breaks | what it does | needs | result | first failing obligation |', '|---|---|---|---|---|---|']
n = {'DETECTED': 0, 'MISSED': 0, 'BROKEN': 0}
for d in sorted(glob.glob('/verif/seeded/*/')):
    name = d.rstrip('/').split('/')[-1]
    m = json.load(open(d + 'meta.json'))
    for p, st, rest in res.get(name, [('?', 'not run', '')]):
        first = ''
        mm = re.search(r'first=(.*)$', rest)
        if mm: first = mm.group(1)
        rep = ''
        mm = re.search(r'violations=(\d+) replayed=(\d+)', rest)
        if mm: rep = ' (%s violations, %s replayed)' % (mm.group(1), mm.group(2))
        if st == 'BROKEN': rep = ': ' + rest[:150].replace('|', '/')
        n[st] = n.get(st, 0) + 1
        out.append('| %s | %s | %s | %s | %s%s | `%s` |' % (name, m['property'], m['summary'].replace('|', '/')[:230], str(m['needs']).replace('|', '/')[:200], st, rep, first))
out += ['', 'Totals: %s' % ', '.join('%s %d' % kv for kv in n.items())]
open('/verif/selftest/SEEDED_RESULTS.md', 'w').write('\n'.join(out) + '\n')
print(n)
